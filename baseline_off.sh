#!/bin/sh
# Build uber/h3 from ${VERIF_REPO:-/repo}'s working tree with the hook guard OFF
# (no -DH3_VERIF_HOOKS) in a scratch directory and run the pinned test suite.
# The scratch directory is removed afterwards.
set -e
REPO=${VERIF_REPO:-/repo}
B=$(mktemp -d /tmp/h3-baseline-off.XXXXXX)
trap 'rm -rf "$B"' EXIT
cmake -G Ninja -S "$REPO" -B "$B" -DCMAKE_BUILD_TYPE=RelWithDebInfo -DENABLE_DOCS=OFF -DENABLE_FORMAT=OFF -DENABLE_LINTING=OFF >"$B/configure.log" 2>&1 || { cat "$B/configure.log"; exit 2; }
cmake --build "$B" -j16 >"$B/build.log" 2>&1 || { tail -50 "$B/build.log"; exit 2; }
rc=0
ctest --test-dir "$B" -j8 --timeout 900 >"$B/ctest.log" 2>&1 || rc=$?
tail -15 "$B/ctest.log"
exit $rc
