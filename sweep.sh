#!/bin/sh
# usage: ./sweep.sh <tier> <seed> [checks...]   — runs checks one after another, prints one summary line each
TIER=$1; SEED=$2; shift 2
LIST=${*:-C01 C02 C03 C04 C05 C06 C07 C08 C09 C10 C11 C12 C13 C14 C15 C16 C17 C18 C19 C20}
WORST=0
for c in $LIST; do
  VERIF_SEED=$SEED ./check $c --tier $TIER > /tmp/sweep.$c.$TIER.$SEED.log 2>&1; rc=$?
  echo "rc=$rc $(tail -1 /tmp/sweep.$c.$TIER.$SEED.log | cut -c1-200)"
  [ $rc -ne 0 ] && WORST=$rc && grep -m3 -A1 "^VIOLATION\|^INCONCLUSIVE" /tmp/sweep.$c.$TIER.$SEED.log | cut -c1-400
done
exit $WORST
