#include <stdio.h>
#include <stdlib.h>
#include <string.h>
#include "h3api.h"
static int nalloc=0, failat=0, live=0;
void *vf_malloc(size_t s){ nalloc++; if(failat && nalloc==failat) return NULL; live++; return malloc(s);} 
void *vf_calloc(size_t n,size_t s){ nalloc++; if(failat && nalloc==failat) return NULL; live++; return calloc(n,s);} 
void *vf_realloc(void*p,size_t s){ return realloc(p,s);} 
void vf_free(void*p){ if(p) live--; free(p);} 
int main(){
  // areNeighborCells with a pentagon origin res 2 and a non-sibling neighbor
  H3Index pent; H3Index pents[12]; getPentagons(2,pents); pent=pents[0];
  H3Index ring[7]={0}; gridDisk(pent,1,ring);
  for(int i=0;i<7;i++){ if(!ring[i]||ring[i]==pent) continue;
    // neighbors of neighbor
    H3Index r2[7]={0}; gridDisk(ring[i],1,r2);
    for(int j=0;j<7;j++){ if(!r2[j]||r2[j]==ring[i]) continue; 
      int out=-1; nalloc=0; failat=0; live=0; H3Error e=areNeighborCells(ring[i],r2[j],&out); int n=nalloc;
      if(n>0){ for(int f=1;f<=n;f++){ nalloc=0; failat=f; live=0; out=-1; H3Error e2=areNeighborCells(ring[i],r2[j],&out); printf("areNeighborCells %llx %llx: nofail e=%u; fail@%d e=%u out=%d live=%d\n",(unsigned long long)ring[i],(unsigned long long)r2[j],e,f,e2,out,live);} goto done; }
    }
  }
  done:;
  // polygonToCells around a pentagon at res 2
  LatLng c; cellToLatLng(pent,&c); double d=0.05; LatLng v[4]={{c.lat-d,c.lng-d},{c.lat-d,c.lng+d},{c.lat+d,c.lng+d},{c.lat+d,c.lng-d}};
  GeoPolygon gp={{4,v},0,NULL}; int64_t sz; maxPolygonToCellsSize(&gp,2,0,&sz); H3Index*out=calloc(sz,8);
  nalloc=0;failat=0;live=0; H3Error e=polygonToCells(&gp,2,0,out); int n=nalloc; int cnt=0; for(int i=0;i<sz;i++) if(out[i])cnt++;
  printf("polygonToCells nofail e=%u allocs=%d cells=%d live=%d\n",e,n,cnt,live);
  for(int f=1;f<=n;f++){ memset(out,0,sz*8); nalloc=0;failat=f;live=0; e=polygonToCells(&gp,2,0,out); cnt=0; for(int i=0;i<sz;i++) if(out[i])cnt++; printf("  fail@%d e=%u cells=%d live=%d\n",f,e,cnt,live);} 
  return 0; }
