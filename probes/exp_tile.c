#include <stdio.h>
#include <stdlib.h>
#include <string.h>
#include <math.h>
#include "h3api.h"
static double ang(const LatLng*a,const LatLng*b){ return greatCircleDistanceRads(a,b);} 
int main(int argc,char**argv){ int res=atoi(argv[1]); H3Index r0[122]; getRes0Cells(r0); long cells=0,segs=0,unmatched=0,multi=0; double worst=0; long nvhist[12]={0}; long badcount=0;
 for(int b=0;b<122;b++){int64_t cs; cellToChildrenSize(r0[b],res,&cs); H3Index*ch=malloc(cs*8); cellToChildren(r0[b],res,ch);
  for(int64_t i=0;i<cs;i++){ H3Index A=ch[i]; CellBoundary ba; cellToBoundary(A,&ba); nvhist[ba.numVerts]++; cells++; H3Index d[7]={0}; gridDisk(A,1,d); CellBoundary nb[6]; H3Index nh[6]; int m=0; for(int j=0;j<7;j++) if(d[j]&&d[j]!=A){nh[m]=d[j]; cellToBoundary(d[j],&nb[m]); m++;}
   for(int s=0;s<ba.numVerts;s++){ LatLng*p=&ba.verts[s],*q=&ba.verts[(s+1)%ba.numVerts]; int match=0; double best=1e9; for(int k=0;k<m;k++) for(int t=0;t<nb[k].numVerts;t++){ LatLng*p2=&nb[k].verts[t],*q2=&nb[k].verts[(t+1)%nb[k].numVerts]; double e=fmax(ang(p,q2),ang(q,p2)); if(e<best)best=e; if(e<1e-12)match++; }
     segs++; if(match==0){unmatched++; if(unmatched<=8)printf("UNMATCHED res %d cell %llx seg %d/%d best=%.3g\n",res,(unsigned long long)A,s,ba.numVerts,best);} else {if(match>1)multi++; if(best>worst)worst=best;} }
  } free(ch);} 
 printf("res %d cells=%ld segs=%ld unmatched=%ld multi=%ld worst-matched=%.3g nv:",res,cells,segs,unmatched,multi,worst); for(int i=0;i<12;i++) if(nvhist[i])printf(" %d:%ld",i,nvhist[i]); printf("\n"); return 0;}
