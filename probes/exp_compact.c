#include <stdio.h>
#include <stdlib.h>
#include <string.h>
#include <math.h>
#include "h3api.h"
static unsigned long long rs=88172645463325252ULL; static unsigned long long rnd(){rs^=rs<<13;rs^=rs>>7;rs^=rs<<17;return rs;} static double ur(){return (rnd()>>11)*(1.0/9007199254740992.0);}
static int cmp(const void*a,const void*b){H3Index x=*(H3Index*)a,y=*(H3Index*)b;return x<y?-1:x>y;}
int main(int argc,char**argv){ long iters=atol(argv[1]); rs^=atoll(argv[2])*0x9E3779B97F4A7C15ULL; long bad=0,cases=0,errs=0;
 for(long it=0;it<iters;it++){ int res=1+rnd()%15; int cap=200000; H3Index*S=malloc(8*cap); int n=0; int parts=1+rnd()%6;
   for(int p=0;p<parts;p++){ int depth=rnd()%4; if(depth>res)depth=res; int pr=res-depth; H3Index root; if(rnd()%3==0){H3Index pt[12]; getPentagons(pr,pt); root=pt[rnd()%12]; if(rnd()%2){H3Index d[7]={0}; gridDisk(root,1,d); root=d[rnd()%7]; if(!root)root=pt[0];}} else {LatLng g={asin(2*ur()-1),(ur()*2-1)*M_PI}; latLngToCell(&g,pr,&root);} int64_t cs; cellToChildrenSize(root,res,&cs); if(n+cs>cap)continue; cellToChildren(root,res,S+n); int m=cs; 
     int mode=rnd()%4; if(mode==1&&m>1){ /* drop one */ int k=rnd()%m; S[n+k]=S[n+m-1]; m--; } else if(mode==2){ /* keep random subset */ int k=0; for(int i=0;i<m;i++) if(rnd()%2) S[n+k++]=S[n+i]; m=k; } n+=m; }
   qsort(S,n,8,cmp); int u=0; for(int i=0;i<n;i++) if(i==0||S[i]!=S[i-1])S[u++]=S[i]; n=u; if(n==0){free(S);continue;}
   // shuffle
   for(int i=n-1;i>0;i--){int j=rnd()%(i+1); H3Index t=S[i];S[i]=S[j];S[j]=t;}
   H3Index*C=calloc(n,8); H3Error e=compactCells(S,C,n); cases++; if(e){errs++; if(errs<5)printf("ERR %u n=%d res=%d\n",e,n,res); free(S);free(C);continue;}
   int m=0; for(int i=0;i<n;i++) if(C[i])C[m++]=C[i]; int64_t us; if(uncompactCellsSize(C,m,res,&us)||us!=n){bad++; if(bad<5)printf("SIZE mismatch us=%lld n=%d res=%d\n",(long long)us,n,res);} else { H3Index*U=calloc(us,8); if(uncompactCells(C,m,U,us,res)){bad++;} else { qsort(U,us,8,cmp); qsort(S,n,8,cmp); if(memcmp(U,S,8*n)){bad++; if(bad<5)printf("SET mismatch n=%d res=%d\n",n,res);} } free(U);} 
   // canonical: no complete sibling sets, no ancestor pairs
   qsort(C,m,8,cmp); for(int i=0;i<m;i++){ if(!isValidCell(C[i])){bad++;} int r=getResolution(C[i]); if(r>0){ H3Index p; cellToParent(C[i],r-1,&p); int64_t want; cellToChildrenSize(p,r,&want); int have=0; for(int j=0;j<m;j++){ if(getResolution(C[j])==r){H3Index q; cellToParent(C[j],r-1,&q); if(q==p)have++;} } if(have==want){bad++; if(bad<5)printf("NONCANON complete siblings under %llx\n",(unsigned long long)p);} } }
   free(S);free(C); }
 printf("cases=%ld errs=%ld bad=%ld\n",cases,errs,bad); return 0;}
