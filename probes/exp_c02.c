#include <stdio.h>
#include <stdlib.h>
#include <string.h>
#include <math.h>
#include "h3api.h"
static unsigned long long rs=88172645463325252ULL; static unsigned long long rnd(){rs^=rs<<13;rs^=rs>>7;rs^=rs<<17;return rs;} static double ur(){return (rnd()>>11)*(1.0/9007199254740992.0);}
typedef struct{long double x,y,z;}V;
static V toV(LatLng g){V v; long double c=cosl(g.lat); v.x=c*cosl(g.lng); v.y=c*sinl(g.lng); v.z=sinl(g.lat); return v;}
static V cross(V a,V b){V c={a.y*b.z-a.z*b.y,a.z*b.x-a.x*b.z,a.x*b.y-a.y*b.x};return c;}
static long double dot(V a,V b){return a.x*b.x+a.y*b.y+a.z*b.z;}
static V norm(V a){long double n=sqrtl(dot(a,a)); V r={a.x/n,a.y/n,a.z/n}; return r;}
static LatLng toG(V v){LatLng g; g.lat=asinl(v.z); g.lng=atan2l(v.y,v.x); return g;}
// signed outside distance: max over edges of (angle of p outside the great circle of edge), boundary CCW => inside is left
static long double outsideDist(const CellBoundary*b, V p, LatLng c){ /* gnomonic chart centred at c */
  V cv=toV(c); V e1=norm(cross((V){0,0,1},cv)); V e2=cross(cv,e1); long double px,py; {long double w=dot(p,cv); px=dot(p,e1)/w; py=dot(p,e2)/w;}
  long double X[12],Y[12]; int n=b->numVerts; for(int i=0;i<n;i++){V v=toV(b->verts[i]); long double w=dot(v,cv); X[i]=dot(v,e1)/w; Y[i]=dot(v,e2)/w;}
  int in=0; long double mind=1e9; for(int i=0;i<n;i++){int j=(i+1)%n; long double ax=X[i],ay=Y[i],bx=X[j],by=Y[j]; if((ay>py)!=(by>py)){long double x=ax+(py-ay)/(by-ay)*(bx-ax); if(x>px)in=!in;} long double dx=bx-ax,dy=by-ay; long double t=((px-ax)*dx+(py-ay)*dy)/(dx*dx+dy*dy); if(t<0)t=0; if(t>1)t=1; long double qx=ax+t*dx-px,qy=ay+t*dy-py; long double d=sqrtl(qx*qx+qy*qy); if(d<mind)mind=d;}
  return in? -mind: mind; }
int main(int argc,char**argv){ int iters=atoi(argv[1]); rs^=atoll(argv[2])*0x9E3779B97F4A7C15ULL; long double worst[16]={0}; long n=0,viol=0; long nearPole=0;
 for(int it=0;it<iters;it++){ int res=rnd()%16; LatLng g={asin(2*ur()-1),(ur()*2-1)*M_PI}; if(rnd()%8==0){ g.lat=(rnd()%2?1:-1)*(M_PI_2-pow(10,-1-8*ur())); }
   H3Index h; if(latLngToCell(&g,res,&h)){printf("ERR\n");continue;} CellBoundary b; cellToBoundary(h,&b); LatLng c; cellToLatLng(h,&c);
   // pick an edge or vertex, place point at offset
   int e=rnd()%b.numVerts; V a=toV(b.verts[e]),d=toV(b.verts[(e+1)%b.numVerts]); long double t=(rnd()%3==0)?(rnd()%2?1e-9*ur():1-1e-9*ur()):ur(); V m=norm((V){a.x*(1-t)+d.x*t,a.y*(1-t)+d.y*t,a.z*(1-t)+d.z*t}); V cv=toV(c); long double w=acosl(dot(cv,m)); long double f=powl(10,-1-11*ur())*(rnd()%2?1:-1); // move toward/away from center by f*w
   V dir=norm((V){m.x-cv.x,m.y-cv.y,m.z-cv.z}); V p=norm((V){m.x+dir.x*f*w,m.y+dir.y*f*w,m.z+dir.z*f*w}); LatLng pg=toG(p); LatLng pgd={(double)pg.lat,(double)pg.lng}; V pd=toV(pgd);
   H3Index h2; latLngToCell(&pgd,res,&h2); CellBoundary b2; cellToBoundary(h2,&b2); LatLng c2; cellToLatLng(h2,&c2); long double od=outsideDist(&b2,pd,c2); n++; long double tol=fmaxl(2e-12L,4e-15L/cosl(pgd.lat)); if(od>worst[res])worst[res]=od; if(od>tol){viol++; if(viol<10)printf("VIOL res %d lat %.17g lng %.17g cell %llx outside by %.3Lg tol %.3Lg\n",res,pgd.lat,pgd.lng,(unsigned long long)h2,od,tol);} }
 printf("n=%ld viol=%ld worst outside by res:",n,viol); for(int i=0;i<16;i++)printf(" %.2Lg",worst[i]); printf("\n"); return 0;}
