#include <stdio.h>
#include <stdlib.h>
#include <string.h>
#include <math.h>
#include "h3api.h"
static unsigned long long rs=88172645463325252ULL; static unsigned long long rnd(){rs^=rs<<13;rs^=rs>>7;rs^=rs<<17;return rs;} static double ur(){return (rnd()>>11)*(1.0/9007199254740992.0);}
static int pip(const LatLng*v,int n,double lat,double lng,int trans,long double*md){ int c=0; long double mind=1e9; for(int i=0;i<n;i++){ long double ax=v[i].lng,ay=v[i].lat,bx=v[(i+1)%n].lng,by=v[(i+1)%n].lat; long double px=lng,py=lat; if(trans){ if(ax<0)ax+=2*M_PI; if(bx<0)bx+=2*M_PI; if(px<0)px+=2*M_PI;}
   long double dx=bx-ax,dy=by-ay; long double t=((px-ax)*dx+(py-ay)*dy)/(dx*dx+dy*dy); if(t<0)t=0; if(t>1)t=1; long double qx=ax+t*dx-px,qy=ay+t*dy-py; long double d=sqrtl(qx*qx+qy*qy); if(d<mind)mind=d;
   if((ay>py)!=(by>py)){ long double x=ax+(py-ay)/(by-ay)*(bx-ax); if(x>px)c=!c; } } if(md)*md=mind; return c; }
static int cmp(const void*a,const void*b){H3Index x=*(H3Index*)a,y=*(H3Index*)b;return x<y?-1:x>y;}
static int has(H3Index*a,int n,H3Index h){return bsearch(&h,a,n,8,cmp)!=NULL;}
int main(int argc,char**argv){ int iters=atoi(argv[1]); rs^=atoll(argv[2])*0x9E3779B97F4A7C15ULL; long ovamb=0,cases=0,nestbad=0,sizebad=0,fullbad=0,ovmiss=0,errs=0,dup=0,ovextra=0,fullmiss=0;
 for(int it=0;it<iters;it++){ int res=rnd()%16; double avgEdge; getHexagonEdgeLengthAvgKm(res,&avgEdge); double cell=avgEdge/6371.0;
   double R=cell*(0.3+ur()*8); double lat=asin(2*ur()-1)*0.9, lng=(ur()*2-1)*M_PI; int nv=3+rnd()%8; LatLng v[16]; int thin=rnd()%3==0; double ang0=ur()*6.28;
   for(int i=0;i<nv;i++){ double a=ang0+2*M_PI*i/nv+ (ur()-0.5)*(2*M_PI/nv)*0.8; double r=R*(0.3+0.7*ur()); double sx=thin?0.002+0.1*ur()*ur():1; v[i].lat=lat+r*sin(a)*sx; v[i].lng=lng+r*cos(a)/cos(lat); if(v[i].lng>M_PI)v[i].lng-=2*M_PI; if(v[i].lng<-M_PI)v[i].lng+=2*M_PI; if(fabs(v[i].lat)>1.5){nv=0;break;} }
   if(nv<3)continue; int trans=0; for(int i=0;i<nv;i++) if(fabs(v[i].lng-v[(i+1)%nv].lng)>M_PI)trans=1;
   GeoPolygon gp={{nv,v},0,NULL}; H3Index*o[4]; int n[4]; int skip=0; int64_t sz[4];
   for(int m=0;m<4;m++){ if(maxPolygonToCellsSizeExperimental(&gp,res,m,&sz[m])){errs++;skip=1;sz[m]=0;} if(sz[m]>300000)skip=1; }
   if(skip)continue;
   for(int m=0;m<4;m++){ int64_t cap=sz[3]*4+100; o[m]=calloc(cap,8); H3Error e=polygonToCellsExperimental(&gp,res,m,cap,o[m]); if(e){errs++; printf("ERR mode %d e=%u\n",m,e);} n[m]=0; for(int i=0;i<cap;i++) if(o[m][i]) o[m][n[m]++]=o[m][i]; qsort(o[m],n[m],8,cmp); for(int i=1;i<n[m];i++) if(o[m][i]==o[m][i-1])dup++; if(n[m]>sz[m]){sizebad++; if(sizebad<5)printf("SIZEBAD mode %d n=%d max=%lld res=%d\n",m,n[m],(long long)sz[m],res);} }
   cases++;
   for(int i=0;i<n[1];i++) if(!has(o[0],n[0],o[1][i])){nestbad++; if(nestbad<5)printf("NEST full not in center %llx res %d trans %d\n",(unsigned long long)o[1][i],res,trans);} 
   for(int i=0;i<n[0];i++) if(!has(o[2],n[2],o[0][i])){nestbad++;}
   for(int i=0;i<n[2];i++) if(!has(o[3],n[3],o[2][i])){nestbad++; if(nestbad<5)printf("NEST overlapping not in bbox %llx res %d\n",(unsigned long long)o[2][i],res);} 
   // FULL => all verts strictly inside (margin)
   for(int i=0;i<n[1];i++){ CellBoundary b; cellToBoundary(o[1][i],&b); for(int k=0;k<b.numVerts;k++){ long double md; int in=pip(v,nv,b.verts[k].lat,b.verts[k].lng,trans,&md); if(!in&&md>1e-11){fullbad++; if(fullbad<5)printf("FULLBAD %llx vert %d outside by %.3Lg res %d trans %d\n",(unsigned long long)o[1][i],k,md,res,trans);} } }
   // candidates = bbox-mode output + ring; OVERLAPPING must include any cell with a vertex strictly inside polygon or containing a polygon vertex
   for(int i=0;i<n[3];i++){ H3Index h=o[3][i]; CellBoundary b; cellToBoundary(h,&b); int touch=0; long double mdmin=1e9; int allin=1; for(int k=0;k<b.numVerts;k++){ long double md; int in=pip(v,nv,b.verts[k].lat,b.verts[k].lng,trans,&md); if(in&&md>1e-11)touch=1; if(!in||md<cell*0.05)allin=0;} LatLng c; cellToLatLng(h,&c); long double md; if(pip(v,nv,c.lat,c.lng,trans,&md)&&md>1e-11)touch=1; else allin=0; if(touch&&!has(o[2],n[2],h)){ovmiss++; if(ovmiss<5)printf("OVMISS %llx res %d trans %d\n",(unsigned long long)h,res,trans);} if(allin&&!has(o[1],n[1],h)){ /* also need no polygon vertex inside cell */ int pv=0; for(int k=0;k<nv;k++){H3Index hv; latLngToCell(&v[k],res,&hv); if(hv==h)pv=1;} if(!pv){fullmiss++; if(fullmiss<5)printf("FULLMISS %llx res %d trans %d\n",(unsigned long long)h,res,trans);} } }
   for(int k=0;k<nv;k++){H3Index hv; latLngToCell(&v[k],res,&hv); if(!has(o[2],n[2],hv)){ CellBoundary b; cellToBoundary(hv,&b); int tr2=0; for(int q=0;q<b.numVerts;q++) if(fabs(b.verts[q].lng-b.verts[(q+1)%b.numVerts].lng)>M_PI)tr2=1; long double md; int inpl=pip(b.verts,b.numVerts,v[k].lat,v[k].lng,tr2,&md); if(inpl&&md>1e-9){ovmiss++; printf("OVMISS polyvertex cell %llx res %d trans %d planar_in=%d md=%.3Lg ispent=%d\n",(unsigned long long)hv,res,trans,inpl,md,isPentagon(hv));} else ovamb++; } }
   for(int m=0;m<4;m++)free(o[m]); }
 printf("ovamb=%ld cases=%ld errs=%ld dup=%ld nestbad=%ld sizebad=%ld fullbad=%ld fullmiss=%ld ovmiss=%ld\n",ovamb,cases,errs,dup,nestbad,sizebad,fullbad,fullmiss,ovmiss); return 0;}
