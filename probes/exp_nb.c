#include <stdio.h>
#include <stdlib.h>
#include <string.h>
#include <math.h>
#include "h3api.h"
static unsigned long long rs=88172645463325252ULL; static unsigned long long rnd(){rs^=rs<<13;rs^=rs>>7;rs^=rs<<17;return rs;} static double ur(){return (rnd()>>11)*(1.0/9007199254740992.0);}
static int inlist(H3Index*a,int n,H3Index h){for(int i=0;i<n;i++)if(a[i]==h)return 1;return 0;}
int main(int argc,char**argv){ rs^=atoll(argv[1])*0x9E3779B97F4A7C15ULL; long pairs=0,bad=0,paths=0,pathbad=0,pathfail=0,cc=0,ccbad=0; double ccworst=0;
 for(int res=1;res<=15;res++){ H3Index p[12]; getPentagons(res,p);
  for(int it=0;it<4000;it++){ H3Index o; if(it%3==0){ H3Index d[37]={0}; gridDisk(p[rnd()%12],3,d); o=d[rnd()%37]; if(!o)continue;} else {LatLng g={asin(2*ur()-1),(ur()*2-1)*M_PI}; latLngToCell(&g,res,&o);} 
    H3Index d2[19]={0}; int ds[19]={0}; gridDiskDistances(o,2,d2,ds); H3Index n1[7]; int m=0; for(int i=0;i<19;i++) if(d2[i]&&ds[i]==1)n1[m++]=d2[i];
    for(int i=0;i<19;i++){ if(!d2[i])continue; int out=-1; H3Error e=areNeighborCells(o,d2[i],&out); pairs++; int want=(ds[i]==1); if(e||out!=want){bad++; if(bad<6)printf("NBBAD %llx %llx e=%u out=%d want=%d\n",(unsigned long long)o,(unsigned long long)d2[i],e,out,want);} e=areNeighborCells(d2[i],o,&out); if(e||out!=want){bad++;} }
    // siblings
    H3Index par; cellToParent(o,res-1,&par); H3Index sib[7]; int64_t ns; cellToChildrenSize(par,res,&ns); cellToChildren(par,res,sib); for(int i=0;i<ns;i++){ if(sib[i]==o)continue; int out=-1; H3Error e=areNeighborCells(o,sib[i],&out); pairs++; int want=inlist(n1,m,sib[i]); if(e||out!=want){bad++; if(bad<6)printf("SIBBAD %llx %llx e=%u out=%d want=%d\n",(unsigned long long)o,(unsigned long long)sib[i],e,out,want);} }
    // centre child coincidence
    if(res<15){ int cr=res+1+rnd()%(15-res); H3Index c; cellToCenterChild(o,cr,&c); LatLng a,b; cellToLatLng(o,&a); cellToLatLng(c,&b); double dd=greatCircleDistanceRads(&a,&b); cc++; if(dd>ccworst)ccworst=dd; if(dd>2e-12&&dd>4e-15/cos(a.lat))ccbad++; }
    // long path
    if(res>=6&&it%8==0){ CoordIJ q={(int)(rnd()%1200)-600,(int)(rnd()%1200)-600}; if(it%16==0){q.j=q.i;} H3Index t; if(!localIjToCell(o,&q,0,&t)){ int64_t sz; if(!gridPathCellsSize(o,t,&sz)){ H3Index*path=calloc(sz+1,8); H3Error e=gridPathCells(o,t,path); if(e)pathfail++; else { paths++; int okp= path[0]==o&&path[sz-1]==t&&path[sz]==0; for(int64_t i=1;i<sz&&okp;i++){ int out=0; if(areNeighborCells(path[i-1],path[i],&out)||!out)okp=0;} if(!okp){pathbad++; if(pathbad<5)printf("PATHBAD %llx -> %llx len %lld\n",(unsigned long long)o,(unsigned long long)t,(long long)sz);} } free(path);} } }
  } }
 printf("neighbor pairs=%ld bad=%ld | centre-child checks=%ld bad=%ld worst=%.3g | long paths=%ld bad=%ld fail=%ld\n",pairs,bad,cc,ccbad,ccworst,paths,pathbad,pathfail); return 0;}
