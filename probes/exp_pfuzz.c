#define _GNU_SOURCE
#include <stdio.h>
#include <stdlib.h>
#include <string.h>
#include <math.h>
#include <setjmp.h>
#include <float.h>
#include <unistd.h>
#include <signal.h>
#include "h3api.h"
static unsigned long long rs=88172645463325252ULL; static unsigned long long rnd(){rs^=rs<<13;rs^=rs>>7;rs^=rs<<17;return rs;} static double ur(){return (rnd()>>11)*(1.0/9007199254740992.0);}
static jmp_buf jb; static long asserts=0; static const char*curfn="";
void __assert_fail(const char*e,const char*f,unsigned l,const char*fn){ asserts++; static int shown=0; if(shown++<25) printf("ASSERT in %s: %s:%u %s\n",curfn,f,l,e); longjmp(jb,1);} 
static double hdbl(double c,double w){ switch(rnd()%12){case 0:return NAN; case 1:return INFINITY; case 2:return -INFINITY; case 3:return 1e300*(ur()-0.5); case 4:return DBL_MIN; case 5:return (ur()-0.5)*1e3; case 6: return (ur()-0.5)*7; default:return c+(ur()-0.5)*w;} }
static LatLng cur[64]; static int curn,curres,curflags; static char desc[4096];
static void onalarm(int s){ printf("HANG in %s res=%d flags=%d n=%d:",curfn,curres,curflags,curn); for(int i=0;i<curn;i++)printf(" {%.17g,%.17g}",cur[i].lat,cur[i].lng); printf("\n"); fflush(stdout); _exit(4);} 
#define CALL(name,stmt) do{ curfn=name; alarm(20); if(!setjmp(jb)){ stmt; } alarm(0);}while(0)
int main(int argc,char**argv){ long iters=atol(argv[1]); rs^=atoll(argv[2])*0x9E3779B97F4A7C15ULL; signal(SIGALRM,onalarm); long ok=0,err=0;
 for(long it=0;it<iters;it++){ int res=rnd()%16; if(rnd()%20==0)res=(int)rnd(); double avgEdge=1; getHexagonEdgeLengthAvgKm(res&15,&avgEdge); double cell=avgEdge/6371.0; double w=cell*(0.1+ur()*10); double clat=asin(2*ur()-1), clng=(ur()*2-1)*M_PI; int hostile=rnd()%3==0;
   int nv=rnd()%9; if(rnd()%10==0)nv=rnd()%40; LatLng*v=malloc(sizeof(LatLng)*(nv?nv:1)); for(int i=0;i<nv;i++){ v[i].lat=hostile?hdbl(clat,w):clat+(ur()-0.5)*w; v[i].lng=hostile?hdbl(clng,w):clng+(ur()-0.5)*w; if(!hostile&&rnd()%50==0&&i>0)v[i]=v[i-1]; }
   int nh=rnd()%3; GeoLoop*holes=malloc(sizeof(GeoLoop)*(nh?nh:1)); for(int h=0;h<nh;h++){ int m=rnd()%6; holes[h].numVerts=m; holes[h].verts=malloc(sizeof(LatLng)*(m?m:1)); for(int i=0;i<m;i++){holes[h].verts[i].lat=hostile?hdbl(clat,w):clat+(ur()-0.5)*w*0.5; holes[h].verts[i].lng=hostile?hdbl(clng,w):clng+(ur()-0.5)*w*0.5;} }
   GeoPolygon gp={{nv,v},nh,nh?holes:NULL}; uint32_t flags=rnd()%4; if(rnd()%15==0)flags=(uint32_t)rnd(); curn=nv<64?nv:64; memcpy(cur,v,sizeof(LatLng)*curn); curres=res; curflags=flags;
   int64_t s1=-1,s2=-1; H3Error e1=99,e2=99; CALL("maxPolygonToCellsSize", e1=maxPolygonToCellsSize(&gp,res,flags,&s1)); CALL("maxPolygonToCellsSizeExperimental", e2=maxPolygonToCellsSizeExperimental(&gp,res,flags,&s2));
   if(e1>15&&e1!=99){printf("badcode\n");} 
   if(!e1&&s1>=0&&s1<300000){ H3Index*o=calloc(s1?s1:1,8); H3Error e=99; CALL("polygonToCells", e=polygonToCells(&gp,res,flags,o)); if(e)err++; else ok++; free(o);} 
   if(!e2&&s2>=0&&s2<300000){ H3Index*o=calloc(s2?s2:1,8); H3Error e=99; CALL("polygonToCellsExperimental", e=polygonToCellsExperimental(&gp,res,flags,s2,o)); if(e){err++; if(e==14){static int sh=0; if(sh++<10){printf("E_MEMORY_BOUNDS with own max size s2=%lld res=%d flags=%u nv=%d nh=%d hostile=%d:",(long long)s2,res,flags,nv,nh,hostile); for(int i=0;i<nv&&i<8;i++)printf(" {%.17g,%.17g}",v[i].lat,v[i].lng); printf("\n");}}} else ok++; free(o);} 
   for(int h=0;h<nh;h++)free(holes[h].verts); free(holes); free(v); }
 printf("iters=%ld ok=%ld err=%ld asserts=%ld\n",iters,ok,err,asserts); return 0;}
