#include <stdio.h>
#include <stdlib.h>
#include <string.h>
#include <math.h>
#include "h3api.h"
int main(int argc,char**argv){ int res=atoi(argv[1]); H3Index r0[122]; getRes0Cells(r0); long edges=0,bad=0,n2=0,n3=0,other=0; double worst=0;
 for(int b=0;b<122;b++){int64_t cs; cellToChildrenSize(r0[b],res,&cs); H3Index*ch=malloc(cs*8); cellToChildren(r0[b],res,ch);
  for(int64_t i=0;i<cs;i++){ H3Index es[6]; originToDirectedEdges(ch[i],es); for(int j=0;j<6;j++){ if(!es[j])continue; edges++; if(!isValidDirectedEdge(es[j])){bad++;continue;} H3Index od[2]; directedEdgeToCells(es[j],od); H3Index rev; if(cellsToDirectedEdge(od[1],od[0],&rev)){bad++; continue;} CellBoundary a,r; directedEdgeToBoundary(es[j],&a); directedEdgeToBoundary(rev,&r); if(a.numVerts==2)n2++; else if(a.numVerts==3)n3++; else other++; if(a.numVerts!=r.numVerts){bad++; if(bad<6)printf("NV mismatch %llx %d vs %d\n",(unsigned long long)es[j],a.numVerts,r.numVerts); continue;} for(int k=0;k<a.numVerts;k++){ double d=greatCircleDistanceRads(&a.verts[k],&r.verts[a.numVerts-1-k]); if(d>worst)worst=d; if(d>1e-12){bad++; if(bad<6)printf("MISMATCH %llx k=%d d=%g\n",(unsigned long long)es[j],k,d);} } } }
  free(ch);} printf("res %d edges=%ld bad=%ld n2=%ld n3=%ld other=%ld worst=%.3g\n",res,edges,bad,n2,n3,other,worst); return 0;}
