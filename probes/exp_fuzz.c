#define _GNU_SOURCE
#include <stdio.h>
#include <stdlib.h>
#include <string.h>
#include <math.h>
#include <setjmp.h>
#include <float.h>
#include "h3api.h"
static unsigned long long rs=88172645463325252ULL; static unsigned long long rnd(){rs^=rs<<13;rs^=rs>>7;rs^=rs<<17;return rs;} static double ur(){return (rnd()>>11)*(1.0/9007199254740992.0);}
static jmp_buf jb; static long asserts=0; static char lastassert[256]; static const char*curfn="";
void __assert_fail(const char*e,const char*f,unsigned l,const char*fn){ asserts++; static int shown=0; if(shown<25){ snprintf(lastassert,256,"%s:%u %s",f,l,e); printf("ASSERT in %s: %s\n",curfn,lastassert); shown++;} longjmp(jb,1);} 
static H3Index validCell(){ int res=rnd()%16; LatLng g={asin(2*ur()-1),(ur()*2-1)*M_PI}; H3Index h; latLngToCell(&g,res,&h); if(rnd()%4==0){H3Index p[12]; getPentagons(res,p); h=p[rnd()%12]; if(rnd()%2){H3Index d[7]={0}; gridDisk(h,1,d); h=d[rnd()%7]; if(!h)h=p[0];}} return h;}
static H3Index hostile(){ switch(rnd()%8){ case 0: return rnd(); case 1: {H3Index h=validCell(); int n=1+rnd()%3; while(n--)h^=1ULL<<(rnd()%64); return h;} case 2:{H3Index h=validCell(); return h|((rnd()%16)<<59);} case 3:{H3Index h=validCell(); int r=getResolution(h); if(r>0){int p=1+rnd()%r; h|=7ULL<<(3*(15-p));} return h;} case 4:{ int res=1+rnd()%15; H3Index p[12]; getPentagons(res,p); H3Index h=p[rnd()%12]; int pos=1+rnd()%res; h|=1ULL<<(3*(15-pos)); for(int q=pos+1;q<=res;q++) h|=(rnd()%7)<<(3*(15-q)); return h;} case 5: return 0; case 6: {H3Index h=validCell(); h=(h&~(0xFULL<<59))|((2+rnd()%3)<<59)|((rnd()%8)<<56); return h;} default: return validCell(); } }
static int hint(){ switch(rnd()%6){case 0:return (int)rnd(); case 1:return -1-(rnd()%3); case 2:return 16+rnd()%3; case 3: return 0x7fffffff; case 4:return -0x7fffffff-1; default:return rnd()%16;} }
static double hdbl(){ switch(rnd()%8){case 0:return NAN; case 1:return INFINITY; case 2:return -INFINITY; case 3:return 1e300*(ur()-0.5); case 4:return DBL_MIN; case 5:return (ur()-0.5)*1e3; default:return (ur()-0.5)*6.3;} }
#define CALL(name,stmt) do{ curfn=name; if(!setjmp(jb)){ stmt; } }while(0)
int main(int argc,char**argv){ long iters=atol(argv[1]); rs^=atoll(argv[2])*0x9E3779B97F4A7C15ULL; long badcode=0;
 for(long it=0;it<iters;it++){ H3Index a=hostile(), b=(rnd()%3)?hostile():a; if(rnd()%4==0){ H3Index v=validCell(); H3Index d[7]={0}; gridDisk(v,1,d); a=v; b=d[rnd()%7]; if(rnd()%2)b^=1ULL<<(rnd()%45);} int r=hint(); H3Error e=0; 
  LatLng g; CellBoundary cb; H3Index o; int64_t i64; double dd; int ii;
  CALL("cellToLatLng", e=cellToLatLng(a,&g)); if(e>15)badcode++;
  CALL("cellToBoundary", e=cellToBoundary(a,&cb)); if(e>15)badcode++;
  CALL("cellToParent", e=cellToParent(a,r,&o)); CALL("cellToCenterChild", e=cellToCenterChild(a,r,&o)); CALL("cellToChildrenSize", e=cellToChildrenSize(a,r,&i64));
  CALL("cellToChildPos", e=cellToChildPos(a,r,&i64)); CALL("childPosToCell", e=childPosToCell((int64_t)rnd()%1000,a,r,&o));
  CALL("cellAreaRads2", e=cellAreaRads2(a,&dd)); CALL("edgeLengthRads", e=edgeLengthRads(a,&dd));
  CALL("isValidCell", ii=isValidCell(a)); CALL("isValidDirectedEdge", ii=isValidDirectedEdge(a)); CALL("isValidVertex", ii=isValidVertex(a));
  { int f[5]; int mf; CALL("maxFaceCount", e=maxFaceCount(a,&mf)); int*ff=malloc(sizeof(int)*mf); CALL("getIcosahedronFaces", e=getIcosahedronFaces(a,ff)); free(ff);} 
  CALL("areNeighborCells", e=areNeighborCells(a,b,&ii)); CALL("cellsToDirectedEdge", e=cellsToDirectedEdge(a,b,&o));
  CALL("getDirectedEdgeOrigin", e=getDirectedEdgeOrigin(a,&o)); CALL("getDirectedEdgeDestination", e=getDirectedEdgeDestination(a,&o)); {H3Index od[2]; CALL("directedEdgeToCells", e=directedEdgeToCells(a,od));} {H3Index*ed=malloc(48); CALL("originToDirectedEdges", e=originToDirectedEdges(a,ed)); free(ed);} CALL("directedEdgeToBoundary", e=directedEdgeToBoundary(a,&cb));
  CALL("cellToVertex", e=cellToVertex(a,r,&o)); CALL("cellToVertex2", e=cellToVertex(a,rnd()%7,&o)); {H3Index*vs=malloc(48); CALL("cellToVertexes", e=cellToVertexes(a,vs)); free(vs);} CALL("vertexToLatLng", e=vertexToLatLng(a,&g));
  CALL("gridDistance", e=gridDistance(a,b,&i64)); {int64_t sz; H3Error se=1; CALL("gridPathCellsSize", se=gridPathCellsSize(a,b,&sz)); if(!se&&sz<100000&&sz>0){H3Index*p=malloc(8*sz); CALL("gridPathCells", e=gridPathCells(a,b,p)); free(p);} }
  {CoordIJ ij; CALL("cellToLocalIj", e=cellToLocalIj(a,b,rnd()%3==0?rnd():0,&ij)); CoordIJ q={(int)(rnd()%5==0?hint():(int)(rnd()%2000)-1000),(int)(rnd()%5==0?hint():(int)(rnd()%2000)-1000)}; CALL("localIjToCell", e=localIjToCell(a,&q,0,&o));}
  { int k=rnd()%6; if(rnd()%10==0)k=hint(); int64_t sz; if(!maxGridDiskSize(k,&sz)&&sz<200000){ H3Index*out=calloc(sz,8); int*ds=calloc(sz,4); CALL("gridDisk", e=gridDisk(a,k,out)); memset(out,0,sz*8); CALL("gridDiskDistances", e=gridDiskDistances(a,k,out,ds)); memset(out,0,sz*8); memset(ds,0,sz*4); CALL("gridDiskDistancesSafe", e=gridDiskDistancesSafe(a,k,out,ds)); CALL("gridDiskUnsafe", e=gridDiskUnsafe(a,k,out)); CALL("gridDiskDistancesUnsafe", e=gridDiskDistancesUnsafe(a,k,out,ds)); free(out); free(ds); if(k>=0){H3Index*ring=malloc(8*(k?6*k:1)); CALL("gridRingUnsafe", e=gridRingUnsafe(a,k,ring)); free(ring);} } }
  { LatLng p={hdbl(),hdbl()}; CALL("latLngToCell", e=latLngToCell(&p,r,&o)); if(!e&&!isValidCell(o)){printf("INVALID OUT latLngToCell\n");} }
  { int n=1+rnd()%40; H3Index*in=malloc(8*n),*out=calloc(n,8); for(int q=0;q<n;q++)in[q]=(rnd()%3)?validCell():hostile(); if(rnd()%2){H3Index v=validCell(); int rr=getResolution(v); if(rr>0){H3Index p; cellToParent(v,rr-1,&p); int64_t cs; cellToChildrenSize(p,rr,&cs); if(cs<=n){cellToChildren(p,rr,in);} }} CALL("compactCells", e=compactCells(in,out,n)); int64_t us; H3Error ue=1; int rr=rnd()%16; CALL("uncompactCellsSize", ue=uncompactCellsSize(in,n,rr,&us)); if(!ue&&us<200000){H3Index*u=malloc(8*(us?us:1)); CALL("uncompactCells", e=uncompactCells(in,n,u,us,rr)); free(u);} 
    if(rnd()%4==0){ LinkedGeoPolygon lp; H3Error le=1; CALL("cellsToLinkedMultiPolygon", le=cellsToLinkedMultiPolygon(in,n,&lp)); if(!le) destroyLinkedMultiPolygon(&lp);} free(in);free(out);} 
 }
 printf("iters=%ld asserts=%ld badcode=%ld\n",iters,asserts,badcode); return 0;}
