#include <stdio.h>
#include <stdlib.h>
#include <string.h>
#include <math.h>
#include "h3api.h"
static int cmp(const void*a,const void*b){H3Index x=*(H3Index*)a,y=*(H3Index*)b;return x<y?-1:x>y;}
int main(int argc,char**argv){ int res=atoi(argv[1]); int64_t N; getNumCells(res,&N); H3Index*all=malloc(8*6*N); long k=0; H3Index r0[122]; getRes0Cells(r0); long bad=0; double worst=0; int facebad=0;
 for(int b=0;b<122;b++){int64_t cs; cellToChildrenSize(r0[b],res,&cs); H3Index*ch=malloc(cs*8); cellToChildren(r0[b],res,ch);
  for(int64_t i=0;i<cs;i++){ H3Index v[6]; if(cellToVertexes(ch[i],v)){bad++;continue;} CellBoundary cb; cellToBoundary(ch[i],&cb); int np=isPentagon(ch[i])?5:6; for(int j=0;j<np;j++){ if(!isValidVertex(v[j]))bad++; all[k++]=v[j]; LatLng g; vertexToLatLng(v[j],&g); double best=1e9; for(int t=0;t<cb.numVerts;t++){double d=greatCircleDistanceRads(&g,&cb.verts[t]); if(d<best)best=d;} if(best>worst)worst=best; }
    int mf; maxFaceCount(ch[i],&mf); int f[5]; if(getIcosahedronFaces(ch[i],f)) facebad++; }
  free(ch);} 
 qsort(all,k,8,cmp); long d=0; for(long i=0;i<k;i++) if(i==0||all[i]!=all[i-1]){d++;} long triple=0; for(long i=0;i<k;){long j=i; while(j<k&&all[j]==all[i])j++; if(j-i!=3)triple++; i=j;}
 printf("res %d N=%lld distinct vertexes=%ld expect=%lld not-exactly-3=%ld bad=%ld worst vtx-boundary dist=%.3g facebad=%d\n",res,(long long)N,d,(long long)(2*N-4),triple,bad,worst,facebad); return 0;}
