#include <stdio.h>
#include <stdlib.h>
#include <string.h>
#include <math.h>
#include "h3api.h"
static unsigned long long rs=88172645463325252ULL; static unsigned long long rnd(){rs^=rs<<13;rs^=rs>>7;rs^=rs<<17;return rs;} static double ur(){return (rnd()>>11)*(1.0/9007199254740992.0);}
typedef struct{long double x,y,z;}V;
static V toV(LatLng g){V v; long double c=cosl(g.lat); v.x=c*cosl(g.lng); v.y=c*sinl(g.lng); v.z=sinl(g.lat); return v;}
static V cross(V a,V b){V c={a.y*b.z-a.z*b.y,a.z*b.x-a.x*b.z,a.x*b.y-a.y*b.x};return c;}
static long double dot(V a,V b){return a.x*b.x+a.y*b.y+a.z*b.z;}
static V sub(V a,V b){V c={a.x-b.x,a.y-b.y,a.z-b.z};return c;}
// signed spherical triangle area (Van Oosterom-Strackee) using difference vectors for the determinant
static long double tri(V a,V b,V c){ long double det=dot(a,cross(sub(b,a),sub(c,a))); long double den=1+dot(a,b)+dot(b,c)+dot(c,a); return 2*atan2l(det,den);} 
static long double polyArea(const CellBoundary*b, LatLng c){ V cv=toV(c); long double s=0; for(int i=0;i<b->numVerts;i++){ s+=tri(cv,toV(b->verts[i]),toV(b->verts[(i+1)%b->numVerts])); } return s; }
int main(int argc,char**argv){ 
 for(int res=0;res<=5;res++){ H3Index r0[122]; getRes0Cells(r0); long double sum=0,sum2=0; double worst=0; for(int b=0;b<122;b++){int64_t cs; cellToChildrenSize(r0[b],res,&cs); H3Index*ch=malloc(cs*8); cellToChildren(r0[b],res,ch); for(int64_t i=0;i<cs;i++){ double a; cellAreaRads2(ch[i],&a); CellBoundary cb; LatLng c; cellToBoundary(ch[i],&cb); cellToLatLng(ch[i],&c); long double a2=polyArea(&cb,c); sum+=a; sum2+=a2; double rel=fabs((double)((a-a2)/a2)); if(rel>worst)worst=rel; } free(ch);} printf("res %d sum(cellArea)-4pi=%.3Lg  sum(oracle)-4pi=%.3Lg worst rel diff=%.3g\n",res,sum-4*3.141592653589793238462643383279502884L,sum2-4*3.141592653589793238462643383279502884L,worst);} 
 for(int res=6;res<=15;res++){ double worst=0; for(int it=0;it<200000;it++){ LatLng g={asin(2*ur()-1),(ur()*2-1)*M_PI}; H3Index h; latLngToCell(&g,res,&h); double a; cellAreaRads2(h,&a); CellBoundary cb; LatLng c; cellToBoundary(h,&cb); cellToLatLng(h,&c); long double a2=polyArea(&cb,c); double rel=fabs((double)((a-a2)/a2)); if(rel>worst)worst=rel;} printf("res %d worst rel diff=%.3g\n",res,worst);} return 0;}
