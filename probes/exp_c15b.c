#include <stdio.h>
#include <stdlib.h>
#include <string.h>
#include <math.h>
#include "h3api.h"
static unsigned long long rs=88172645463325252ULL; static unsigned long long rnd(){rs^=rs<<13;rs^=rs>>7;rs^=rs<<17;return rs;} static double ur(){return (rnd()>>11)*(1.0/9007199254740992.0);}
typedef long double LD;
static LD segdist(LD px,LD py,LD ax,LD ay,LD bx,LD by){ LD dx=bx-ax,dy=by-ay; LD t=((px-ax)*dx+(py-ay)*dy)/(dx*dx+dy*dy); if(t<0)t=0; if(t>1)t=1; LD qx=ax+t*dx-px,qy=ay+t*dy-py; return sqrtl(qx*qx+qy*qy);} 
static int segcross(LD ax,LD ay,LD bx,LD by,LD cx,LD cy,LD dx,LD dy){ LD d1=(bx-ax)*(cy-ay)-(by-ay)*(cx-ax), d2=(bx-ax)*(dy-ay)-(by-ay)*(dx-ax), d3=(dx-cx)*(ay-cy)-(dy-cy)*(ax-cx), d4=(dx-cx)*(by-cy)-(dy-cy)*(bx-cx); return ((d1>0)!=(d2>0))&&((d3>0)!=(d4>0)); }
// polygons as arrays of x(lng unwrapped),y(lat)
static int pip(const LD*X,const LD*Y,int n,LD px,LD py){int c=0; for(int i=0;i<n;i++){int j=(i+1)%n; if((Y[i]>py)!=(Y[j]>py)){LD x=X[i]+(py-Y[i])/(Y[j]-Y[i])*(X[j]-X[i]); if(x>px)c=!c;}} return c;}
static LD polydist(const LD*X,const LD*Y,int n,const LD*U,const LD*W,int m){ // min distance between boundaries; 0 if cross
  LD best=1e9; for(int i=0;i<n;i++){int i2=(i+1)%n; for(int j=0;j<m;j++){int j2=(j+1)%m; if(segcross(X[i],Y[i],X[i2],Y[i2],U[j],W[j],U[j2],W[j2]))return 0; LD d; d=segdist(X[i],Y[i],U[j],W[j],U[j2],W[j2]); if(d<best)best=d; d=segdist(U[j],W[j],X[i],Y[i],X[i2],Y[i2]); if(d<best)best=d; }} return best; }
static int cmp(const void*a,const void*b){H3Index x=*(H3Index*)a,y=*(H3Index*)b;return x<y?-1:x>y;}
int main(int argc,char**argv){ int iters=atoi(argv[1]); rs^=atoll(argv[2])*0x9E3779B97F4A7C15ULL; long cases=0,ovcells=0,disj=0,amb=0,decidedOverlap=0;
 for(int it=0;it<iters;it++){ int res=rnd()%16; double avgEdge; getHexagonEdgeLengthAvgKm(res,&avgEdge); double cell=avgEdge/6371.0;
   double R=cell*(0.3+ur()*8); double lat=asin(2*ur()-1)*0.85, lng=(ur()*2-1)*M_PI; int nv=3+rnd()%8; LatLng v[16]; int thin=rnd()%3==0; double ang0=ur()*6.28; if(R/cos(lat)>1.2)continue;
   for(int i=0;i<nv;i++){ double a=ang0+2*M_PI*i/nv+ (ur()-0.5)*(2*M_PI/nv)*0.8; double r=R*(0.3+0.7*ur()); double sx=thin?0.002+0.1*ur()*ur():1; v[i].lat=lat+r*sin(a)*sx; v[i].lng=lng+r*cos(a)/cos(lat); if(fabs(v[i].lat)>1.5){nv=0;break;} }
   if(nv<3)continue; LD PX[16],PY[16]; for(int i=0;i<nv;i++){PX[i]=v[i].lng;PY[i]=v[i].lat; if(v[i].lng>M_PI)v[i].lng-=2*M_PI; if(v[i].lng<-M_PI)v[i].lng+=2*M_PI;}
   GeoPolygon gp={{nv,v},0,NULL}; int64_t sz; if(maxPolygonToCellsSizeExperimental(&gp,res,2,&sz)||sz>100000)continue; H3Index*o=calloc(sz+1,8); if(polygonToCellsExperimental(&gp,res,2,sz,o)){free(o);continue;} cases++;
   H3Index np_,sp_; {LatLng a={M_PI_2,0},b={-M_PI_2,0}; latLngToCell(&a,res,&np_); latLngToCell(&b,res,&sp_);} 
   for(int i=0;i<sz;i++){ if(!o[i])continue; if(o[i]==np_||o[i]==sp_)continue; ovcells++; CellBoundary cb; cellToBoundary(o[i],&cb); LatLng c; cellToLatLng(o[i],&c); LD CX[12],CY[12]; // unwrap cell lngs near polygon centre lng
      for(int k=0;k<cb.numVerts;k++){ LD x=cb.verts[k].lng; while(x-lng>M_PI)x-=2*M_PI; while(x-lng<-M_PI)x+=2*M_PI; CX[k]=x; CY[k]=cb.verts[k].lat;} LD cx=c.lng; while(cx-lng>M_PI)cx-=2*M_PI; while(cx-lng<-M_PI)cx+=2*M_PI;
      LD d=polydist(PX,PY,nv,CX,CY,cb.numVerts); int inside=pip(PX,PY,nv,CX[0],CY[0])||pip(PX,PY,nv,cx,c.lat); int polyInCell=pip(CX,CY,cb.numVerts,PX[0],PY[0]);
      if(d==0||inside||polyInCell){decidedOverlap++;} else if(d>0.02*cell){disj++; if(disj<8)printf("DISJOINT-BUT-RETURNED res %d cell %llx dist/cell=%.3Lg\n",res,(unsigned long long)o[i],d/cell);} else amb++; }
   free(o); }
 printf("cases=%ld overlapping cells=%ld decided-overlap=%ld ambiguous=%ld definitely-disjoint-but-returned=%ld\n",cases,ovcells,decidedOverlap,amb,disj); return 0;}
