#include <stdio.h>
#include <stdlib.h>
#include <string.h>
#include <math.h>
#include "h3api.h"
static unsigned long long rs=88172645463325252ULL; static unsigned long long rnd(){rs^=rs<<13;rs^=rs>>7;rs^=rs<<17;return rs;} static double ur(){return (rnd()>>11)*(1.0/9007199254740992.0);}
// oracle: crossing number, returns 1 inside, 0 outside, -1 ambiguous
static int pip(const LatLng*v,int n,double lat,double lng,int trans){ int c=0; long double mind=1e9; for(int i=0;i<n;i++){ long double ax=v[i].lng,ay=v[i].lat,bx=v[(i+1)%n].lng,by=v[(i+1)%n].lat; long double px=lng,py=lat; if(trans){ if(ax<0)ax+=2*M_PI; if(bx<0)bx+=2*M_PI; if(px<0)px+=2*M_PI;}
   // distance to segment
   long double dx=bx-ax,dy=by-ay; long double t=((px-ax)*dx+(py-ay)*dy)/(dx*dx+dy*dy); if(t<0)t=0; if(t>1)t=1; long double qx=ax+t*dx-px,qy=ay+t*dy-py; long double d=sqrtl(qx*qx+qy*qy); if(d<mind)mind=d;
   if((ay>py)!=(by>py)){ long double x=ax+(py-ay)/(by-ay)*(bx-ax); if(x>px)c=!c; } }
  if(mind<1e-11) return -1; return c; }
static int cmp(const void*a,const void*b){H3Index x=*(H3Index*)a,y=*(H3Index*)b;return x<y?-1:x>y;}
int main(int argc,char**argv){ int iters=atoi(argv[1]); rs^=atoll(argv[2])*0x9E3779B97F4A7C15ULL; long miss_old=0,extra_old=0,miss_new=0,extra_new=0,cases=0,amb=0,errs=0,dup=0, tot=0;
 for(int it=0;it<iters;it++){ int res=rnd()%16; double avgEdge; getHexagonEdgeLengthAvgKm(res,&avgEdge); double cell=avgEdge/6371.0; // radians
   double R=cell*(0.3+ur()*8); double lat=asin(2*ur()-1)*0.9, lng=(ur()*2-1)*M_PI; int nv=3+rnd()%8; LatLng v[16]; int thin=rnd()%3==0; double ang0=ur()*6.28;
   for(int i=0;i<nv;i++){ double a=ang0+2*M_PI*i/nv+ (ur()-0.5)*(2*M_PI/nv)*0.8; double r=R*(0.3+0.7*ur()); double sx=thin?0.002+0.1*ur()*ur():1; v[i].lat=lat+r*sin(a)*sx; v[i].lng=lng+r*cos(a)/cos(lat); if(v[i].lng>M_PI)v[i].lng-=2*M_PI; if(v[i].lng<-M_PI)v[i].lng+=2*M_PI; if(fabs(v[i].lat)>1.5){nv=0;break;} }
   if(nv<3)continue; int trans=0; for(int i=0;i<nv;i++) if(fabs(v[i].lng-v[(i+1)%nv].lng)>M_PI)trans=1;
   GeoPolygon gp={{nv,v},0,NULL}; int64_t s1,s2; if(maxPolygonToCellsSize(&gp,res,0,&s1)||maxPolygonToCellsSizeExperimental(&gp,res,0,&s2)){errs++;continue;} if(s1>200000||s2>200000)continue;
   H3Index*o1=calloc(s1,8),*o2=calloc(s2,8); H3Error e1=polygonToCells(&gp,res,0,o1),e2=polygonToCellsExperimental(&gp,res,0,s2,o2); if(e1||e2){errs++; printf("ERR e1=%u e2=%u res=%d nv=%d\n",e1,e2,res,nv); free(o1);free(o2);continue;}
   int n1=0,n2=0; for(int i=0;i<s1;i++)if(o1[i])o1[n1++]=o1[i]; for(int i=0;i<s2;i++)if(o2[i])o2[n2++]=o2[i]; qsort(o1,n1,8,cmp);qsort(o2,n2,8,cmp); for(int i=1;i<n1;i++)if(o1[i]==o1[i-1])dup++; for(int i=1;i<n2;i++)if(o2[i]==o2[i-1])dup++;
   // candidates: disks k=2 around outputs + vertex cells + sample points
   int cap=(n1+n2+nv+400)*19+100; H3Index*cand=calloc(cap,8); int nc=0; 
   H3Index seeds[20000]; int ns=0; for(int i=0;i<n1&&ns<9000;i++)seeds[ns++]=o1[i]; for(int i=0;i<n2&&ns<18000;i++)seeds[ns++]=o2[i]; for(int i=0;i<nv;i++){latLngToCell(&v[i],res,&seeds[ns++]);}
   for(int k=0;k<300;k++){ // random interior-ish samples along edges & centroid mix
      int i=rnd()%nv; double t=ur(),u=ur(); LatLng p; double l1=v[i].lng,l2=v[(i+1)%nv].lng,l0=lng; if(trans){if(l1<0)l1+=2*M_PI;if(l2<0)l2+=2*M_PI; if(l0<0)l0+=2*M_PI;} p.lat=(v[i].lat*(1-t)+v[(i+1)%nv].lat*t)*(1-u)+lat*u; p.lng=(l1*(1-t)+l2*t)*(1-u)+l0*u; if(p.lng>M_PI)p.lng-=2*M_PI; latLngToCell(&p,res,&seeds[ns++]); }
   cap=ns*19+10; free(cand); cand=calloc(cap,8); for(int i=0;i<ns;i++){ H3Index d[19]={0}; gridDisk(seeds[i],2,d); for(int j=0;j<19;j++) if(d[j]) cand[nc++]=d[j]; }
   qsort(cand,nc,8,cmp); int m=0; for(int i=0;i<nc;i++) if(i==0||cand[i]!=cand[i-1]) cand[m++]=cand[i]; nc=m;
   int bad=0; for(int i=0;i<nc;i++){ LatLng c; cellToLatLng(cand[i],&c); int in=pip(v,nv,c.lat,c.lng,trans); tot++; if(in<0){amb++;continue;} int in1=bsearch(&cand[i],o1,n1,8,cmp)!=NULL,in2=bsearch(&cand[i],o2,n2,8,cmp)!=NULL; if(in&&!in1){miss_old++;bad|=1;} if(!in&&in1){extra_old++;bad|=2;} if(in&&!in2){miss_new++;bad|=4;} if(!in&&in2){extra_new++;bad|=8;} }
   cases++; if(bad && cases<100000){ static int shown=0; if(shown++<12){ printf("BAD mask=%d res=%d nv=%d thin=%d trans=%d n1=%d n2=%d R/cell=%.2f lat=%.3f\n",bad,res,nv,thin,trans,n1,n2,R/cell,lat);} }
   free(o1);free(o2);free(cand); }
 printf("cases=%ld cand=%ld amb=%ld errs=%ld dup=%ld | legacy miss=%ld extra=%ld | exp miss=%ld extra=%ld\n",cases,tot,amb,errs,dup,miss_old,extra_old,miss_new,extra_new); return 0;}
