#include <stdio.h>
#include "h3api.h"
int main(){ LatLng v[5]={{-0.68459359172457235,0.23592516284676812}, {-0.68617920147087641,0.28750299278603336}, {-0.68509845876072961,0.31423287666733607}, {-0.6841880080294197,0.30900840376120942}, {-0.68440450696689936,0.28239155250776415}};
 for(int rot=0;rot<5;rot++){ LatLng w[5]; for(int i=0;i<5;i++)w[i]=v[(i+rot)%5]; GeoPolygon gp={{5,w},0,NULL}; H3Index out[50]={0}; H3Error e=polygonToCellsExperimental(&gp,1,2,50,out); printf("rot %d e=%u:",rot,e); for(int i=0;i<50;i++) if(out[i])printf(" %llx",(unsigned long long)out[i]); printf("\n"); } return 0;}
