#include <stdio.h>
#include <stdlib.h>
#include <string.h>
#include <math.h>
#include "h3api.h"
static unsigned long long rs=88172645463325252ULL; static unsigned long long rnd(){rs^=rs<<13;rs^=rs>>7;rs^=rs<<17;return rs;} static double ur(){return (rnd()>>11)*(1.0/9007199254740992.0);}
int main(int argc,char**argv){ rs^=atoll(argv[1])*0x9E3779B97F4A7C15ULL; long rt=0,rtbad=0; 
 // C03 roundtrip: pentagon nbhds k<=5 at all res + random
 for(int res=0;res<=15;res++){ H3Index p[12]; getPentagons(res,p); for(int k=0;k<12;k++){ H3Index d[91]={0}; gridDisk(p[k],5,d); for(int i=0;i<91;i++) if(d[i]){ LatLng g; cellToLatLng(d[i],&g); H3Index h; latLngToCell(&g,res,&h); rt++; if(h!=d[i]){rtbad++; if(rtbad<5)printf("RTBAD %llx -> %llx\n",(unsigned long long)d[i],(unsigned long long)h);} } }
   for(int it=0;it<200000;it++){ LatLng g={asin(2*ur()-1),(ur()*2-1)*M_PI}; H3Index h,h2; latLngToCell(&g,res,&h); LatLng c; cellToLatLng(h,&c); latLngToCell(&c,res,&h2); rt++; if(h!=h2){rtbad++; if(rtbad<5)printf("RTBAD %llx -> %llx\n",(unsigned long long)h,(unsigned long long)h2);} } }
 printf("C03 roundtrips=%ld bad=%ld\n",rt,rtbad);
 // C13: pentagon parents all (pres, cres), positions
 long cp=0,cpbad=0; for(int pres=0;pres<=15;pres++){ H3Index p[12]; getPentagons(pres,p); for(int cres=pres;cres<=15;cres++){ for(int k=0;k<12;k+=5){ int64_t n; cellToChildrenSize(p[k],cres,&n); H3Index prev=0; for(int t=0;t<300;t++){ int64_t pos = t==0?0: t==1?n-1: t==2?(n>1?1:0): (int64_t)((unsigned long long)rnd()%(unsigned long long)n); H3Index c; H3Error e=childPosToCell(pos,p[k],cres,&c); cp++; if(e||!isValidCell(c)){cpbad++; if(cpbad<5)printf("CPBAD e=%u pres %d cres %d pos %lld\n",e,pres,cres,(long long)pos); continue;} int64_t back; e=cellToChildPos(c,pres,&back); if(e||back!=pos){cpbad++; if(cpbad<5)printf("CPBAD back %lld != %lld\n",(long long)back,(long long)pos);} H3Index par; cellToParent(c,pres,&par); if(par!=p[k])cpbad++; if(pos+1<n){H3Index c2; childPosToCell(pos+1,p[k],cres,&c2); if(!(c2>c))cpbad++;} } H3Index c; if(childPosToCell(n,p[k],cres,&c)!=2||childPosToCell(-1,p[k],cres,&c)!=2)cpbad++; } } }
 printf("C13 checks=%ld bad=%ld\n",cp,cpbad);
 // C09: localIj round trips near pentagons and random
 long ij=0,ijbad=0,ijfail=0,step=0,stepbad=0; for(int res=1;res<=15;res++){ H3Index p[12]; getPentagons(res,p); for(int it=0;it<3000;it++){ H3Index o; if(it%2){ H3Index d[37]={0}; gridDisk(p[rnd()%12],3,d); o=d[rnd()%37]; if(!o)continue;} else {LatLng g={asin(2*ur()-1),(ur()*2-1)*M_PI}; latLngToCell(&g,res,&o);} H3Index d[91]={0}; gridDisk(o,5,d); for(int i=0;i<91;i++){ if(!d[i])continue; CoordIJ c; if(cellToLocalIj(o,d[i],0,&c)){ijfail++;continue;} H3Index b; H3Error e=localIjToCell(o,&c,0,&b); ij++; if(e){ijfail++;} else if(b!=d[i]){ijbad++; if(ijbad<5)printf("IJBAD origin %llx cell %llx -> (%d,%d) -> %llx\n",(unsigned long long)o,(unsigned long long)d[i],c.i,c.j,(unsigned long long)b);} }
     // reverse: random ij
     CoordIJ q={(int)(rnd()%41)-20,(int)(rnd()%41)-20}; H3Index b; if(!localIjToCell(o,&q,0,&b)){ if(!isValidCell(b)||getResolution(b)!=res)ijbad++; CoordIJ c2; if(!cellToLocalIj(o,b,0,&c2)){ ij++; if(c2.i!=q.i||c2.j!=q.j){ijbad++; if(ijbad<5)printf("IJBAD2 origin %llx (%d,%d) -> %llx -> (%d,%d)\n",(unsigned long long)o,q.i,q.j,(unsigned long long)b,c2.i,c2.j);} } }
   } }
 printf("C09 ij roundtrips=%ld bad=%ld (fail %ld)\n",ij,ijbad,ijfail); return 0;}
