#include <stdio.h>
#include <stdlib.h>
#include <math.h>
#include "h3api.h"
#include "polyfill.h"
#include "bbox.h"
int main(){ LatLng v[5]={{-0.68459359172457235,0.23592516284676812}, {-0.68617920147087641,0.28750299278603336}, {-0.68509845876072961,0.31423287666733607}, {-0.6841880080294197,0.30900840376120942}, {-0.68440450696689936,0.28239155250776415}};
 GeoPolygon gp={{5,v},0,NULL}; int res=1; for(int m=0;m<4;m++){ H3Index out[200]={0}; H3Error e=polygonToCellsExperimental(&gp,res,m,200,out); printf("mode %d e=%u:",m,e); for(int i=0;i<200;i++) if(out[i])printf(" %llx",(unsigned long long)out[i]); printf("\n"); }
 for(int k=0;k<5;k++){H3Index h; latLngToCell(&v[k],res,&h); printf("v%d in %llx\n",k,(unsigned long long)h);} 
 H3Index h=0x81d17ffffffffffULL; CellBoundary b; cellToBoundary(h,&b); for(int i=0;i<b.numVerts;i++)printf("  cell vert %d: %.6f %.6f\n",i,b.verts[i].lat,b.verts[i].lng); BBox bb; cellToBBox(h,&bb,false); printf("cellToBBox: N %.5f S %.5f E %.5f W %.5f\n",bb.north,bb.south,bb.east,bb.west); cellToBBox(h,&bb,true); printf("cellToBBox(children): N %.5f S %.5f E %.5f W %.5f\n",bb.north,bb.south,bb.east,bb.west);
 H3Index p; cellToParent(h,0,&p); cellToBBox(p,&bb,true); printf("parent %llx bbox(children): N %.5f S %.5f E %.5f W %.5f\n",(unsigned long long)p,bb.north,bb.south,bb.east,bb.west);
 return 0;}
