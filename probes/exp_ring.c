#include <stdio.h>
#include <stdlib.h>
#include <string.h>
#include "h3api.h"
static int cmp(const void*a,const void*b){H3Index x=*(H3Index*)a,y=*(H3Index*)b;return x<y?-1:x>y;}
int main(int argc,char**argv){ int res=atoi(argv[1]); int K=atoi(argv[2]); H3Index p[12]; getPentagons(res,p); long ok=0,err=0,bad=0,diskok=0,diskbad=0;
 for(int pi=0;pi<12;pi++){ int64_t sz; maxGridDiskSize(K+3,&sz); H3Index*orig=calloc(sz,8); gridDisk(p[pi],K+3,orig);
  for(int oi=0;oi<sz;oi++){ H3Index o=orig[oi]; if(!o)continue; for(int k=0;k<=K;k++){ int64_t s2; maxGridDiskSize(k,&s2); H3Index*d=calloc(s2,8); int*ds=calloc(s2,4); gridDiskDistancesSafe(o,k,d,ds); H3Index*sph=malloc(8*(6*k+1)); int ns=0; for(int i=0;i<s2;i++) if(d[i]&&ds[i]==k) sph[ns++]=d[i]; qsort(sph,ns,8,cmp);
     H3Index*ring=calloc(k?6*k:1,8); H3Error e=gridRingUnsafe(o,k,ring); if(e)err++; else { int nr=k?6*k:1; qsort(ring,nr,8,cmp); if(nr!=ns||memcmp(ring,sph,8*nr)){bad++; if(bad<6)printf("RINGBAD res %d origin %llx k=%d ring=%d sphere=%d\n",res,(unsigned long long)o,k,nr,ns);} else ok++; }
     // unsafe disk
     H3Index*u=calloc(s2,8); int*ud=calloc(s2,4); e=gridDiskDistancesUnsafe(o,k,u,ud); if(!e){ int good=1; for(int j=0;j<=k&&good;j++){ int lo=j?3*j*(j-1)+1:0, hi=3*j*(j+1); for(int i=lo;i<=hi;i++){ if(ud[i]!=j)good=0; int f=0; for(int q=0;q<s2;q++) if(d[q]==u[i]&&ds[q]==j)f=1; if(!f)good=0; } } if(good)diskok++; else {diskbad++; if(diskbad<6)printf("DISKBAD res %d origin %llx k=%d\n",res,(unsigned long long)o,k);} }
     free(d);free(ds);free(sph);free(ring);free(u);free(ud);} }
  free(orig);} printf("res %d K=%d ring ok=%ld err=%ld bad=%ld | unsafe disk ok=%ld bad=%ld\n",res,K,ok,err,bad,diskok,diskbad); return 0;}
