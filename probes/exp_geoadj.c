#include <stdio.h>
#include <stdlib.h>
#include <string.h>
#include <math.h>
#include "h3api.h"
typedef struct{long double x,y,z;}V;
static V toV(LatLng g){V v; long double c=cosl(g.lat); v.x=c*cosl(g.lng); v.y=c*sinl(g.lng); v.z=sinl(g.lat); return v;}
static V norm(V a){long double n=sqrtl(a.x*a.x+a.y*a.y+a.z*a.z); V r={a.x/n,a.y/n,a.z/n}; return r;}
static LatLng toG(V v){LatLng g; g.lat=(double)asinl(v.z); g.lng=(double)atan2l(v.y,v.x); return g;}
static int cmp(const void*a,const void*b){H3Index x=*(H3Index*)a,y=*(H3Index*)b;return x<y?-1:x>y;}
static int geoNeighbors(H3Index h,H3Index*out,double frac){ CellBoundary b; LatLng c; cellToBoundary(h,&b); cellToLatLng(h,&c); V cv=toV(c); int res=getResolution(h); int n=0; 
  for(int i=0;i<b.numVerts;i++){ V a=toV(b.verts[i]),d=toV(b.verts[(i+1)%b.numVerts]); V m=norm((V){a.x+d.x,a.y+d.y,a.z+d.z}); V dir={m.x-cv.x,m.y-cv.y,m.z-cv.z}; V p=norm((V){m.x+dir.x*frac,m.y+dir.y*frac,m.z+dir.z*frac}); LatLng g=toG(p); H3Index x; if(latLngToCell(&g,res,&x)) continue; if(x==h) continue; int dup=0; for(int k=0;k<n;k++) if(out[k]==x)dup=1; if(!dup) out[n++]=x; }
  qsort(out,n,8,cmp); return n; }
static long cells=0,bad=0;
static void check(H3Index h,double frac){ H3Index g[12]; int n=geoNeighbors(h,g,frac); H3Index d[7]={0}; gridDisk(h,1,d); H3Index e[7]; int m=0; for(int j=0;j<7;j++) if(d[j]&&d[j]!=h)e[m++]=d[j]; qsort(e,m,8,cmp); cells++; if(n!=m||memcmp(g,e,8*n)){bad++; if(bad<=10){printf("MISMATCH %llx frac=%g geo=%d disk=%d:",(unsigned long long)h,frac,n,m); for(int i=0;i<n;i++)printf(" %llx",(unsigned long long)g[i]); printf(" |"); for(int i=0;i<m;i++)printf(" %llx",(unsigned long long)e[i]); printf("\n");}} }
int main(int argc,char**argv){ int maxres=atoi(argv[1]); double frac=atof(argv[2]); H3Index r0[122]; getRes0Cells(r0);
 for(int res=0;res<=maxres;res++){ long c0=cells,b0=bad; for(int b=0;b<122;b++){int64_t cs; cellToChildrenSize(r0[b],res,&cs); H3Index*ch=malloc(cs*8); cellToChildren(r0[b],res,ch); for(int64_t i=0;i<cs;i++)check(ch[i],frac); free(ch);} printf("res %d cells %ld mismatches %ld\n",res,cells-c0,bad-c0*0-b0);} 
 for(int res=maxres+1;res<=15;res++){ long c0=cells,b0=bad; H3Index p[12]; getPentagons(res,p); for(int k=0;k<12;k++){ int64_t sz; maxGridDiskSize(6,&sz); H3Index*d=calloc(sz,8); gridDisk(p[k],6,d); for(int i=0;i<sz;i++) if(d[i])check(d[i],frac); free(d);} printf("res %d pentagon-nbhd cells %ld mismatches %ld\n",res,cells-c0,bad-b0);} 
 return 0;}
