#include <stdio.h>
#include <stdlib.h>
#include <string.h>
#include "h3api.h"
static int cmp(const void*a,const void*b){H3Index x=*(H3Index*)a,y=*(H3Index*)b;return x<y?-1:x>y;}
static H3Index*cells; static int n;
static int idx(H3Index h){H3Index*p=bsearch(&h,cells,n,8,cmp);return p?(int)(p-cells):-1;}
int main(int argc,char**argv){ int res=atoi(argv[1]);
  int64_t N; getNumCells(res,&N); n=(int)N; cells=malloc(8*n); H3Index r0[122]; getRes0Cells(r0); int k=0;
  for(int b=0;b<122;b++){int64_t cs; cellToChildrenSize(r0[b],res,&cs); cellToChildren(r0[b],res,cells+k); k+=cs;}
  qsort(cells,n,8,cmp);
  int (*nb)[6]=malloc(sizeof(int[6])*n);
  for(int i=0;i<n;i++){H3Index d[7]={0}; gridDisk(cells[i],1,d); int m=0; for(int j=0;j<6;j++)nb[i][j]=-1; for(int j=0;j<7;j++) if(d[j]&&d[j]!=cells[i]) nb[i][m++]=idx(d[j]);}
  int*dist=malloc(4*n),*q=malloc(4*n); long ok=0,fail=0,wrong=0,asym=0; long pathok=0,pathfail=0,pathbad=0;
  for(int s=0;s<n;s++){ for(int i=0;i<n;i++)dist[i]=-1; int qh=0,qt=0; q[qt++]=s; dist[s]=0; while(qh<qt){int u=q[qh++]; for(int j=0;j<6;j++){int v=nb[u][j]; if(v>=0&&dist[v]<0){dist[v]=dist[u]+1;q[qt++]=v;}}}
    for(int t=0;t<n;t++){ int64_t d; H3Error e=gridDistance(cells[s],cells[t],&d); if(e){fail++;continue;} ok++; if(d!=dist[t]){wrong++; if(wrong<=10)printf("WRONG res %d %llx -> %llx gridDistance=%lld bfs=%d\n",res,(unsigned long long)cells[s],(unsigned long long)cells[t],(long long)d,dist[t]);}
      int64_t d2; H3Error e2=gridDistance(cells[t],cells[s],&d2); if(!e2&&d2!=d){asym++; if(asym<=5)printf("ASYM %llx %llx %lld %lld\n",(unsigned long long)cells[s],(unsigned long long)cells[t],(long long)d,(long long)d2);} 
      if(d<=40){ H3Index path[64]; memset(path,0,sizeof path); H3Error pe=gridPathCells(cells[s],cells[t],path); if(pe){pathfail++;} else { int bad=0; if(path[0]!=cells[s]||path[d]!=cells[t])bad=1; for(int i=1;i<=d&&!bad;i++){int a=idx(path[i-1]),b=idx(path[i]); if(a<0||b<0){bad=1;break;} int f=0; for(int j=0;j<6;j++) if(nb[a][j]==b)f=1; if(!f)bad=1;} if(bad){pathbad++; if(pathbad<=10)printf("PATHBAD %llx -> %llx d=%lld\n",(unsigned long long)cells[s],(unsigned long long)cells[t],(long long)d);} else pathok++; } }
    }
  }
  printf("res %d: pairs ok=%ld fail=%ld wrong=%ld asym=%ld path ok=%ld fail=%ld bad=%ld\n",res,ok,fail,wrong,asym,pathok,pathfail,pathbad);
  return 0;}
