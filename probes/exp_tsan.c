#define _GNU_SOURCE
#include <pthread.h>
#include <stdio.h>
#include <stdlib.h>
#include <string.h>
#include <math.h>
#include <sched.h>
#include "h3api.h"
typedef struct{unsigned long long rs; unsigned long long hash; long calls;}T;
static unsigned long long rnd(T*t){t->rs^=t->rs<<13;t->rs^=t->rs>>7;t->rs^=t->rs<<17;return t->rs;} static double ur(T*t){return (rnd(t)>>11)*(1.0/9007199254740992.0);}
static void mix(T*t,const void*p,size_t n){const unsigned char*b=p; for(size_t i=0;i<n;i++){t->hash^=b[i]; t->hash*=1099511628211ULL;} t->calls++;}
static void*work(void*a){ T*t=a; for(int it=0;it<3000;it++){ int res=rnd(t)%12; LatLng g={asin(2*ur(t)-1),(ur(t)*2-1)*M_PI}; H3Index h; if(rnd(t)%5==0){H3Index p[12]; getPentagons(res,p); h=p[rnd(t)%12];} else latLngToCell(&g,res,&h); mix(t,&h,8);
   CellBoundary cb; memset(&cb,0,sizeof cb); cellToBoundary(h,&cb); mix(t,&cb.numVerts,4); mix(t,cb.verts,sizeof(LatLng)*cb.numVerts); H3Index d[37]={0}; int ds[37]={0}; gridDiskDistances(h,3,d,ds); mix(t,d,sizeof d); mix(t,ds,sizeof ds);
   char buf[17]; h3ToString(h,buf,17); H3Index h2; stringToH3(buf,&h2); mix(t,&h2,8); const char*e=describeH3Error(rnd(t)%18); mix(t,e,strlen(e));
   H3Index v[6]; cellToVertexes(h,v); mix(t,v,48); double ar; cellAreaRads2(h,&ar); mix(t,&ar,8);
   if(res>0){ H3Index p; cellToParent(h,res-1,&p); int64_t cs; cellToChildrenSize(p,res,&cs); H3Index ch[7]; cellToChildren(p,res,ch); H3Index out[7]={0}; compactCells(ch,out,cs); mix(t,out,56);} 
   if(it%10==0){ double w=0.02*pow(0.4,res); LatLng pv[4]={{g.lat-w,g.lng-w},{g.lat-w,g.lng+w},{g.lat+w,g.lng+w},{g.lat+w,g.lng-w}}; if(fabs(g.lat)<1.3&&fabs(g.lng)<3){ GeoPolygon gp={{4,pv},0,NULL}; int64_t sz; if(!maxPolygonToCellsSizeExperimental(&gp,res,0,&sz)&&sz<100000){H3Index*o=calloc(sz+1,8); polygonToCellsExperimental(&gp,res,rnd(t)%4,sz,o); mix(t,o,8*sz); free(o);} int64_t s1; if(!maxPolygonToCellsSize(&gp,res,0,&s1)&&s1<100000){H3Index*o=calloc(s1,8); polygonToCells(&gp,res,0,o); /* order is hash-dependent but deterministic */ mix(t,o,8*s1); free(o);} LinkedGeoPolygon lp; H3Index dd[7]; int m=0; for(int i=0;i<7;i++) if(d[i])dd[m++]=d[i]; if(!cellsToLinkedMultiPolygon(dd,m,&lp)){ int c=0; for(LinkedGeoPolygon*q=&lp;q;q=q->next)for(LinkedGeoLoop*l=q->first;l;l=l->next)for(LinkedLatLng*x=l->first;x;x=x->next){mix(t,&x->vertex,16);c++;} destroyLinkedMultiPolygon(&lp);} } }
   if(rnd(t)%7==0)sched_yield(); }
 return 0;}
int main(int argc,char**argv){ int n=atoi(argv[1]); T ts[16],seq[16]; pthread_t th[16]; for(int i=0;i<n;i++){ts[i].rs=88172645463325252ULL^(i*0x9E3779B97F4A7C15ULL+1); ts[i].hash=1469598103934665603ULL; ts[i].calls=0; seq[i]=ts[i];}
 for(int i=0;i<n;i++)pthread_create(&th[i],0,work,&ts[i]); for(int i=0;i<n;i++)pthread_join(th[i],0); for(int i=0;i<n;i++)work(&seq[i]); int mism=0; for(int i=0;i<n;i++) if(ts[i].hash!=seq[i].hash)mism++; printf("threads=%d calls=%ld mismatches=%d\n",n,ts[0].calls*n,mism); return 0;}
