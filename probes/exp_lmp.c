#include <stdio.h>
#include <stdlib.h>
#include <string.h>
#include "h3api.h"
static int loops(LinkedGeoPolygon*p,int*polys){int n=0;*polys=0;for(;p;p=p->next){(*polys)++;for(LinkedGeoLoop*l=p->first;l;l=l->next)n++;}return n;}
int main(){
  // every cell + its k=1 disk at res 0..4 : expect 1 polygon 1 loop
  for(int res=0;res<=3;res++){
    int64_t n; getNumCells(res,&n); int bad=0,tot=0;
    H3Index r0[122]; getRes0Cells(r0);
    for(int b=0;b<122;b++){ int64_t cs; cellToChildrenSize(r0[b],res,&cs); H3Index*ch=malloc(cs*8); cellToChildren(r0[b],res,ch);
      for(int64_t i=0;i<cs;i++){ H3Index d[7]={0}; gridDisk(ch[i],1,d); H3Index s[7]; int m=0; for(int j=0;j<7;j++) if(d[j]) s[m++]=d[j];
        LinkedGeoPolygon out; H3Error e=cellsToLinkedMultiPolygon(s,m,&out); tot++;
        if(e){bad++; if(bad<5)printf("res %d cell %llx err %u\n",res,(unsigned long long)ch[i],e); continue;}
        int polys; int l=loops(&out,&polys); if(l!=1||polys!=1){bad++; if(bad<5)printf("res %d cell %llx disk1: polys=%d loops=%d\n",res,(unsigned long long)ch[i],polys,l);} destroyLinkedMultiPolygon(&out);
        // pairs
        for(int j=0;j<m;j++){ if(s[j]==ch[i])continue; H3Index pr[2]={ch[i],s[j]}; e=cellsToLinkedMultiPolygon(pr,2,&out); tot++; if(e){bad++;continue;} l=loops(&out,&polys); if(l!=1||polys!=1){bad++; if(bad<8)printf("res %d pair %llx %llx: polys=%d loops=%d\n",res,(unsigned long long)pr[0],(unsigned long long)pr[1],polys,l);} destroyLinkedMultiPolygon(&out);} 
      } free(ch);} 
    printf("res %d: %d sets, %d bad\n",res,tot,bad);
  }
  return 0;}
