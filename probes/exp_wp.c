#define _GNU_SOURCE
#include <link.h>
#include <stdio.h>
#include <stdlib.h>
#include <string.h>
#include <signal.h>
#include <sys/mman.h>
#include <unistd.h>
#include "h3api.h"
static uintptr_t lo,hi;
static int cb(struct dl_phdr_info*info,size_t sz,void*d){ if(!strstr(info->dlpi_name,"libh3plain")) return 0; for(int i=0;i<info->dlpi_phnum;i++){ const ElfW(Phdr)*p=&info->dlpi_phdr[i]; if(p->p_type==PT_LOAD&&(p->p_flags&PF_W)){ lo=info->dlpi_addr+p->p_vaddr; hi=lo+p->p_memsz; printf("RW seg %lx-%lx (%lu bytes)\n",lo,hi,(unsigned long)p->p_memsz);} } return 0;}
static void onsegv(int s,siginfo_t*si,void*u){ printf("WRITE TRAP at %p (lib RW seg %lx-%lx)\n",si->si_addr,lo,hi); _exit(3);} 
int main(){ dl_iterate_phdr(cb,NULL); long pg=sysconf(_SC_PAGESIZE); uintptr_t a=lo&~(pg-1), b=(hi+pg-1)&~(pg-1); unsigned char*snap=malloc(hi-lo); memcpy(snap,(void*)lo,hi-lo);
 struct sigaction sa; memset(&sa,0,sizeof sa); sa.sa_sigaction=onsegv; sa.sa_flags=SA_SIGINFO; sigaction(SIGSEGV,&sa,NULL);
 if(mprotect((void*)a,b-a,PROT_READ)){perror("mprotect");return 1;}
 // workload
 LatLng g={0.5,0.5}; H3Index h; for(int r=0;r<16;r++){latLngToCell(&g,r,&h); CellBoundary cbd; cellToBoundary(h,&cbd); H3Index d[19]={0}; gridDisk(h,2,d);} 
 LatLng v[4]={{0.1,0.1},{0.1,0.2},{0.2,0.2},{0.2,0.1}}; GeoPolygon gp={{4,v},0,NULL}; int64_t sz; maxPolygonToCellsSizeExperimental(&gp,5,0,&sz); H3Index*o=calloc(sz,8); polygonToCellsExperimental(&gp,5,0,sz,o); printf("describe: %s\n",describeH3Error(3));
 mprotect((void*)a,b-a,PROT_READ|PROT_WRITE); printf("workload done; diff=%d\n",memcmp(snap,(void*)lo,hi-lo)); return 0;}
