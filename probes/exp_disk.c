#include <stdio.h>
#include <stdlib.h>
#include <string.h>
#include "h3api.h"
static int cmp(const void*a,const void*b){H3Index x=*(H3Index*)a,y=*(H3Index*)b;return x<y?-1:x>y;}
static H3Index*cells; static int n;
static int idx(H3Index h){H3Index*p=bsearch(&h,cells,n,8,cmp);return p?(int)(p-cells):-1;}
int main(int argc,char**argv){ int res=atoi(argv[1]); int K=atoi(argv[2]); int step=atoi(argv[3]);
  int64_t N; getNumCells(res,&N); n=(int)N; cells=malloc(8*n); H3Index r0[122]; getRes0Cells(r0); int k=0;
  for(int b=0;b<122;b++){int64_t cs; cellToChildrenSize(r0[b],res,&cs); cellToChildren(r0[b],res,cells+k); k+=cs;}
  qsort(cells,n,8,cmp);
  int (*nb)[6]=malloc(sizeof(int[6])*n);
  for(int i=0;i<n;i++){H3Index d[7]={0}; gridDisk(cells[i],1,d); int m=0; for(int j=0;j<6;j++)nb[i][j]=-1; for(int j=0;j<7;j++) if(d[j]&&d[j]!=cells[i]) nb[i][m++]=idx(d[j]);}
  int*dist=malloc(4*n),*q=malloc(4*n); long bad=0,cases=0; int64_t sz; maxGridDiskSize(K,&sz); H3Index*out=malloc(8*sz); int*ds=malloc(4*sz); char*seen=malloc(n);
  for(int s=0;s<n;s+=step){ for(int i=0;i<n;i++)dist[i]=-1; int qh=0,qt=0; q[qt++]=s; dist[s]=0; while(qh<qt){int u=q[qh++]; for(int j=0;j<6;j++){int v=nb[u][j]; if(v>=0&&dist[v]<0){dist[v]=dist[u]+1;q[qt++]=v;}}}
    for(int kk=K;kk<=K;kk++){ memset(out,0,8*sz); memset(ds,0,4*sz); H3Error e=gridDiskDistances(cells[s],kk,out,ds); cases++; if(e){bad++; printf("ERR %u\n",e); continue;} memset(seen,0,n); int cnt=0; for(int i=0;i<sz;i++) if(out[i]){ int t=idx(out[i]); if(t<0||seen[t]||dist[t]!=ds[i]||ds[i]>kk){bad++; if(bad<5)printf("BAD res %d origin %llx k=%d cell %llx d=%d bfs=%d dup=%d\n",res,(unsigned long long)cells[s],kk,(unsigned long long)out[i],ds[i],t<0?-9:dist[t],t<0?0:seen[t]);} if(t>=0)seen[t]=1; cnt++; } int exp=0; for(int i=0;i<n;i++) if(dist[i]<=kk)exp++; if(cnt!=exp){bad++; if(bad<5)printf("COUNT res %d origin %llx k=%d got %d expect %d\n",res,(unsigned long long)cells[s],kk,cnt,exp);} }
  }
  printf("res %d K=%d cases=%ld bad=%ld\n",res,K,cases,bad); return 0;}
