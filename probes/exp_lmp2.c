#include <stdio.h>
#include <stdlib.h>
#include <string.h>
#include <math.h>
#include "h3api.h"
#include "vertexGraph.h"
static int loops(LinkedGeoPolygon*p,int*polys){int n=0;*polys=0;for(;p;p=p->next){(*polys)++;for(LinkedGeoLoop*l=p->first;l;l=l->next)n++;}return n;}
static int polar(H3Index h){ int res=getResolution(h); LatLng np={M_PI_2,0},sp={-M_PI_2,0}; H3Index a,b; latLngToCell(&np,res,&a); latLngToCell(&sp,res,&b); return h==a||h==b; }
// signature: two cells in set, edge-adjacent, with coinciding vertices that hash differently
static int hashSplit(const H3Index*s,int n){ int res=getResolution(s[0]); int nb=n>6?n:6; for(int i=0;i<n;i++){ CellBoundary a; cellToBoundary(s[i],&a); for(int j=i+1;j<n;j++){ CellBoundary b; cellToBoundary(s[j],&b); for(int p=0;p<a.numVerts;p++) for(int q=0;q<b.numVerts;q++){ if(greatCircleDistanceRads(&a.verts[p],&b.verts[q])<1e-12){ if(_hashVertex(&a.verts[p],res,nb)!=_hashVertex(&b.verts[q],res,nb)) return 1; } } } } return 0; }
int main(){ long explained=0,unexplained=0,polarbad=0,good=0,goodsplit=0;
  for(int res=0;res<=2;res++){ H3Index r0[122]; getRes0Cells(r0);
    for(int b=0;b<122;b++){ int64_t cs; cellToChildrenSize(r0[b],res,&cs); H3Index*ch=malloc(cs*8); cellToChildren(r0[b],res,ch);
      for(int64_t i=0;i<cs;i++){ H3Index d[7]={0}; gridDisk(ch[i],1,d); H3Index s[7]; int m=0; for(int j=0;j<7;j++) if(d[j]) s[m++]=d[j];
        for(int t=-1;t<m;t++){ H3Index set[7]; int n; if(t<0){memcpy(set,s,8*m); n=m;} else { if(s[t]==ch[i])continue; set[0]=ch[i]; set[1]=s[t]; n=2; }
          int anyPolar=0; for(int q=0;q<n;q++) if(polar(set[q]))anyPolar=1;
          LinkedGeoPolygon out; H3Error e=cellsToLinkedMultiPolygon(set,n,&out); int bad=0; if(e)bad=1; else { int polys; int l=loops(&out,&polys); if(l!=1||polys!=1)bad=1; destroyLinkedMultiPolygon(&out);} int hs=hashSplit(set,n);
          if(bad){ if(anyPolar)polarbad++; else if(hs)explained++; else {unexplained++; if(unexplained<6){printf("UNEXPLAINED res %d n=%d e=%u:",res,n,e); for(int q=0;q<n;q++)printf(" %llx",(unsigned long long)set[q]); printf("\n");}} } else { good++; if(hs)goodsplit++; }
        } }
      free(ch);} }
  printf("bad explained-by-hash-split=%ld unexplained=%ld polar-bad=%ld | good=%ld (of which have a split pair but still ok=%ld)\n",explained,unexplained,polarbad,good,goodsplit); return 0;}
