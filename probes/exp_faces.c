#include <stdio.h>
#include <stdlib.h>
#include <string.h>
#include <math.h>
#include "h3api.h"
#include "faceijk.h"
typedef struct{long double x,y,z;}V;
static V toV(LatLng g){V v; long double c=cosl(g.lat); v.x=c*cosl(g.lng); v.y=c*sinl(g.lng); v.z=sinl(g.lat); return v;}
static V norm(V a){long double n=sqrtl(a.x*a.x+a.y*a.y+a.z*a.z); V r={a.x/n,a.y/n,a.z/n}; return r;}
static V fc[20];
static int faceOf(V p,long double*margin){ int best=-1,second=-1; long double bd=1e9,sd=1e9; for(int f=0;f<20;f++){ long double dx=p.x-fc[f].x,dy=p.y-fc[f].y,dz=p.z-fc[f].z; long double d=dx*dx+dy*dy+dz*dz; if(d<bd){sd=bd;second=best;bd=d;best=f;} else if(d<sd){sd=d;second=f;} } *margin=sd-bd; return best; }
int main(int argc,char**argv){ int res=atoi(argv[1]); int G=atoi(argv[2]); for(int f=0;f<20;f++)fc[f]=toV(faceCenterGeo[f]); H3Index r0[122]; getRes0Cells(r0); long cells=0,missing=0,extra=0,hist[6]={0},pentnot5=0;
 for(int b=0;b<122;b++){int64_t cs; cellToChildrenSize(r0[b],res,&cs); H3Index*ch=malloc(cs*8); cellToChildren(r0[b],res,ch);
  for(int64_t i=0;i<cs;i++){ H3Index h=ch[i]; int mf; maxFaceCount(h,&mf); int out[5]; if(getIcosahedronFaces(h,out)){printf("ERR\n");continue;} int rep=0; unsigned repmask=0; for(int k=0;k<mf;k++) if(out[k]>=0){rep++; repmask|=1u<<out[k];} hist[rep]++; if(isPentagon(h)&&rep!=5)pentnot5++;
    CellBoundary cb; LatLng c; cellToBoundary(h,&cb); cellToLatLng(h,&c); V cv=toV(c); unsigned seen=0; 
    for(int e=0;e<cb.numVerts;e++){ V a=toV(cb.verts[e]),d=toV(cb.verts[(e+1)%cb.numVerts]); for(int s=0;s<=G;s++) for(int t=1;t<=G;t++){ long double u=(long double)s/G, w=(long double)t/(G+0.5L); /* point = c + w*((1-u)a+u d - c) */ V m={a.x*(1-u)+d.x*u,a.y*(1-u)+d.y*u,a.z*(1-u)+d.z*u}; V p=norm((V){cv.x+(m.x-cv.x)*w*0.999L,cv.y+(m.y-cv.y)*w*0.999L,cv.z+(m.z-cv.z)*w*0.999L}); long double mg; int f=faceOf(p,&mg); if(mg>1e-9L) seen|=1u<<f; } }
    { long double mg; int f=faceOf(cv,&mg); if(mg>1e-9L) seen|=1u<<f; }
    cells++; if(seen&~repmask){missing++; if(missing<6)printf("MISSING res %d cell %llx seen=%x reported=%x\n",res,(unsigned long long)h,seen,repmask);} if(repmask&~seen){extra++; if(extra<6)printf("EXTRA? res %d cell %llx seen=%x reported=%x pent=%d\n",res,(unsigned long long)h,seen,repmask,isPentagon(h));} }
  free(ch);} printf("res %d G=%d cells=%ld missing=%ld extra?=%ld pentnot5=%ld hist1..5: %ld %ld %ld %ld %ld\n",res,G,cells,missing,extra,pentnot5,hist[1],hist[2],hist[3],hist[4],hist[5]); return 0;}
