/* mon_C14 — gridPathCells yields a contiguous shortest path of the announced
 * length (DESIGN.md §5 C14).
 * Oracle: geometric adjacency for "is a neighbour of its predecessor", BFS
 * depth (where the ball is affordable) for "shortest". */
#include "vf.h"

#include <fenv.h>

/* The caller's floating-point rounding mode is part of the environment a library call runs in (interval arithmetic,
 * CGAL-style protected scopes set FE_UPWARD).  The three API calls judged here are made under g_round; the oracle
 * (geometric adjacency, BFS) always runs under FE_TONEAREST.  The judgement is the property's own — a valid contiguous
 * shortest path — not "same output as under the default mode". */
static int g_round = FE_TONEAREST;
#define UNDER_ROUNDING(stmt) \
    do { \
        if (g_round != FE_TONEAREST) fesetround(g_round); \
        stmt; \
        if (g_round != FE_TONEAREST) fesetround(FE_TONEAREST); \
    } while (0)

static vf_map dist;
static int64_t n_pairs, n_succ, n_fail, n_cells;

static int geo_adjacent(H3Index a, H3Index b) {
    H3Index nb[MAX_CELL_BNDRY_VERTS];
    int m = vf_geo_neighbors_cached(a, nb);
    if (m == -2) return -2;
    for (int i = 0; i < m; i++)
        if (nb[i] == b) return 1;
    return 0;
}

/* bfs: graph distance if known, else -1 */
static void judge_path(H3Index a, H3Index b, int64_t bfs) {
    uint64_t key = vf_mix(a) ^ vf_mix(b + 0x14);
    char spec[96];
    snprintf(spec, sizeof spec, "path %016" PRIx64 " %016" PRIx64, a, b);
    int64_t size = -7, gd = -7;
    H3Error es, ed;
    if (g_round != FE_TONEAREST) snprintf(spec, sizeof spec, "rpath %d %016" PRIx64 " %016" PRIx64, g_round, a, b);
    UNDER_ROUNDING(es = gridPathCellsSize(a, b, &size); ed = gridDistance(a, b, &gd));
    n_pairs++;
    if ((es == 0) != (ed == 0) || (!es && size != gd + 1)) {
        vf_violation_spec(spec, "size", "gridPathCellsSize", key, "", "gridPathCellsSize rc=%u size=%" PRId64 " but gridDistance rc=%u distance=%" PRId64, es, size, ed, gd);
        return;
    }
    if (es) {
        n_fail++;
        if (bfs == 0 || bfs == 1)
            vf_violation_spec(spec, "must-succeed", "gridPathCellsSize", key, "", "size function rc=%u for %s cells %016" PRIx64 " %016" PRIx64, es, bfs ? "neighbouring" : "identical", a, b);
        /* failure path of gridPathCells itself: announced size unknown -> a 1-slot guarded buffer must stay untouched beyond it */
        H3Index *one = vf_buf_new(8, 0);
        H3Error ep;
        UNDER_ROUNDING(ep = gridPathCells(a, b, one));
        if (!ep) vf_violation_spec(spec, "size", "gridPathCells", key, "", "gridPathCells succeeded although gridPathCellsSize failed (rc=%u)", es);
        if (vf_buf_check(one)) vf_violation_spec(spec, "overrun", "gridPathCells", key, "", "wrote outside a 1-slot buffer on failure");
        vf_buf_free(one);
        return;
    }
    if (size < 1 || size > 4000000) {
        vf_violation_spec(spec, "size", "gridPathCellsSize", key, "", "implausible size %" PRId64, size);
        return;
    }
    H3Index *p = vf_buf_new((size_t)size * 8, 0);
    H3Error e;
    UNDER_ROUNDING(e = gridPathCells(a, b, p));
    if (vf_buf_check(p)) vf_violation_spec(spec, "overrun", "gridPathCells", key, "", "wrote outside the announced %" PRId64 " slots", size);
    if (e) {
        n_fail++;
        if (bfs == 0 || bfs == 1) vf_violation_spec(spec, "must-succeed", "gridPathCells", key, "", "rc=%u for %s cells", e, bfs ? "neighbouring" : "identical");
        vf_buf_free(p);
        return;
    }
    n_succ++;
    n_cells += size;
    if (bfs >= 0 && size != bfs + 1)
        vf_violation_spec(spec, "not-shortest", "gridPathCells", key, "", "path of %" PRId64 " cells between cells at graph distance %" PRId64, size, bfs);
    if (p[0] != a || p[size - 1] != b)
        vf_violation_spec(spec, "endpoints", "gridPathCells", key, "", "path starts %016" PRIx64 " ends %016" PRIx64 ", expected %016" PRIx64 " .. %016" PRIx64, p[0], p[size - 1], a, b);
    for (int64_t i = 0; i < size; i++) {
        if (!ref_is_valid_cell(p[i]) || VF_RES(p[i]) != VF_RES(a)) {
            vf_out_cell("gridPathCells", p[i], VF_RES(a));
            break;
        }
        if (i) {
            int adj = geo_adjacent(p[i - 1], p[i]);
            if (adj == -2) {
                vf_add("undecided.polar_adjacency", 1);
                break;
            }
            if (!adj) {
                vf_violation_spec(spec, "not-contiguous", "gridPathCells", key, "", "step %" PRId64 ": %016" PRIx64 " -> %016" PRIx64 " are not neighbours (path length %" PRId64 ")", i, p[i - 1], p[i], size);
                break;
            }
        }
    }
    for (int64_t i = 0; i < size && i < 4; i++) vf_out_cell("gridPathCells", p[i], VF_RES(a));
    if (size > 2) vf_distinct(key);
    vf_sample("gridPathCells(%016" PRIx64 ", %016" PRIx64 "): %" PRId64 " cells, contiguous, graph distance %" PRId64, a, b, size, bfs);
    vf_buf_free(p);
}

static void whole_res(int res, int maxd, int stride) {
    vf_resgraph g;
    vf_case("graph %d", res);
    if (vf_resgraph_build(&g, res)) {
        vf_violation("error", "latLngToCell", (uint64_t)res, "", "cannot build adjacency graph of res %d", res);
        return;
    }
    int16_t *d = malloc((size_t)g.n * 2);
    int32_t *q = malloc((size_t)g.n * 4);
    for (int32_t i = 0; i < g.n; i++) {
        if (i % stride || !VF_MINE(i / stride)) continue;
        vf_resgraph_bfs(&g, i, d, q);
        vf_case("from %016" PRIx64 " %d", g.cells[i], maxd);
        if (!VF_GUARD()) {
            vf_assert_report("gridPathCells", g.cells[i]);
            VF_UNGUARD();
            continue;
        }
        for (int32_t j = 0; j < g.n; j++)
            if (d[j] <= maxd) judge_path(g.cells[i], g.cells[j], d[j]);
        VF_UNGUARD();
        vf_add("origins.whole_res", 1);
    }
    free(d);
    free(q);
    free(g.cells);
    free(g.adj);
    vf_map_free(&g.index);
}

/* paths that pass a pentagon at some distance: origins in the belt lo..hi steps around each of the twelve pentagons, every
 * tstride-th target within maxd steps (a straight line between two base cells that neighbour a pentagon base cell grazes the
 * pentagon's sextants: the coordinates localIjToCell has to resolve there are reached by no round-trip test) */
static void near_pentagons(int res, int lo, int hi, int ostride, int maxd, int tstride) {
    vf_resgraph g;
    vf_case("graph %d", res);
    if (vf_resgraph_build(&g, res)) {
        vf_violation("error", "latLngToCell", (uint64_t)res, "", "cannot build adjacency graph of res %d", res);
        return;
    }
    int16_t *d = malloc((size_t)g.n * 2), *pd = malloc((size_t)g.n * 2);
    int32_t *q = malloc((size_t)g.n * 4);
    for (int32_t i = 0; i < g.n; i++) pd[i] = 32767;
    for (int32_t i = 0; i < g.n; i++)
        if (ref_is_pentagon(g.cells[i])) {
            vf_resgraph_bfs(&g, i, d, q);
            for (int32_t j = 0; j < g.n; j++)
                if (d[j] >= 0 && d[j] < pd[j]) pd[j] = d[j];
        }
    int64_t taken = 0;
    for (int32_t i = 0; i < g.n; i++) {
        if (pd[i] < lo || pd[i] > hi) continue;
        if (taken++ % ostride || !VF_MINE(taken / ostride)) continue;
        vf_resgraph_bfs(&g, i, d, q);
        vf_case("belt %016" PRIx64 " %d %d", g.cells[i], maxd, tstride);
        if (!VF_GUARD()) {
            vf_assert_report("gridPathCells", g.cells[i]);
            VF_UNGUARD();
            continue;
        }
        for (int32_t j = i % tstride; j < g.n; j += tstride)
            if (d[j] >= 0 && d[j] <= maxd) judge_path(g.cells[i], g.cells[j], d[j]);
        VF_UNGUARD();
        vf_add("origins.pentagon_belt", 1);
    }
    free(d);
    free(pd);
    free(q);
    free(g.cells);
    free(g.adj);
    vf_map_free(&g.index);
}

static void case_ball(H3Index o, int R) {
    vf_case("ball %016" PRIx64 " %d", o, R);
    H3Index *order = NULL;
    int64_t n = vf_geo_bfs(o, R, &dist, &order);
    if (n == -2) {
        vf_add("undecided.polar_adjacency", 1);
        return;
    }
    if (n < 0) return;
    if (!VF_GUARD()) {
        vf_assert_report("gridPathCells", o);
        VF_UNGUARD();
        free(order);
        return;
    }
    for (int64_t i = 0; i < n; i++) {
        judge_path(o, order[i], *vf_map_get(&dist, order[i]));
        if ((i & 7) == 0) judge_path(order[i], o, *vf_map_get(&dist, order[i]));
    }
    VF_UNGUARD();
    vf_add("origins.ball", 1);
    free(order);
}

/* long paths at fine resolutions: straight, diagonal and tie-prone directions */
static void case_long(H3Index a, int di, int dj) {
    vf_case("long %016" PRIx64 " %d %d", a, di, dj);
    CoordIJ ij;
    H3Index b;
    if (!VF_GUARD()) {
        vf_assert_report("gridPathCells", a);
        VF_UNGUARD();
        return;
    }
    if (!cellToLocalIj(a, a, 0, &ij)) {
        ij.i += di;
        ij.j += dj;
        if (!localIjToCell(a, &ij, 0, &b)) {
            judge_path(a, b, -1);
            judge_path(b, a, -1);
            vf_add("long.cases", 1);
        }
    }
    VF_UNGUARD();
}

static void run(void) {
    vf_rng r;
    vf_rng_stream(&r, 14);
    vf_map_init(&dist, 4096);
    int64_t idx = 0;
    whole_res(0, 40, 1);
    whole_res(1, 40, 1);
    whole_res(2, 40, VF_T(4, 1));
    near_pentagons(3, 2, 18, VF_T(12, 2), 30, VF_T(5, 2));
    near_pentagons(4, 4, 45, VF_T(160, 24), 75, VF_T(23, 7));
    if (VF.thorough) near_pentagons(5, 10, 120, 3000, 200, 61);
    H3Index seeds[600];
    int64_t szR;
    int RO = VF_T(2, 3), RB = VF_T(8, 20);
    maxGridDiskSize(RO, &szR);
    H3Index *d = vf_buf_new((size_t)szR * 8, 0);
    for (int res = 3; res <= 15; res++) {
        int n = vf_special_seeds(res, VF_T(2, 5), seeds, 600);
        for (int i = 0; i < n; i++) {
            if (!VF_MINE(idx++)) continue;
            if (i < 12) {
                memset(d, 0, (size_t)szR * 8);
                if (gridDisk(seeds[i], RO, d)) continue;
                for (int64_t j = 0; j < szR; j++)
                    if (d[j]) case_ball(d[j], RB);
            } else
                case_ball(seeds[i], VF_T(5, 9));
        }
        int nr = VF_T(10, 150);
        for (int i = 0; i < nr; i++) case_ball(vf_rand_cell(&r, res), VF_T(5, 8));
        if (res >= 8) {
            int nl = VF_T(12, 150);
            for (int i = 0; i < nl; i++) {
                H3Index a = vf_rand_cell(&r, res);
                int L = 100 + (int)vf_below(&r, VF_T(500, 1900));
                switch (i % 6) {
                    case 0: case_long(a, L, 0); break;
                    case 1: case_long(a, 0, -L); break;
                    case 2: case_long(a, L, L); break;       /* |di| = |dj| */
                    case 3: case_long(a, L, -L); break;      /* tie-prone diagonal */
                    case 4: case_long(a, 2 * L + 1, L); break; /* half-integer cube coordinates */
                    default: case_long(a, (int)vf_below(&r, (uint64_t)L), -(int)vf_below(&r, (uint64_t)L));
                }
            }
        }
    }
    /* paths of 50 000 - 180 000 cells (res 13-15): the far end of the quantifier, where products of the step number and the
     * distance pass 2^31 */
    for (int res = 13; res <= 15; res++)
        for (int i = 0; i < VF_T(2, 10); i++) {
            H3Index a = vf_rand_cell(&r, res);
            int L = 47000 + (int)vf_below(&r, 130000);
            if (!VF_MINE(idx++)) continue;
            switch (i % 3) {
                case 0: case_long(a, L, (int)vf_below(&r, (uint64_t)L)); break;
                case 1: case_long(a, -(int)vf_below(&r, (uint64_t)L), L); break;
                default: case_long(a, L, -L / 3);
            }
            vf_add("long.very_long_cases", 1);
        }
    vf_buf_free(d);
    /* the same judgement with the API calls made under the three directed rounding modes */
    {
        static const int modes[3] = {FE_UPWARD, FE_DOWNWARD, FE_TOWARDZERO};
        int64_t before = n_pairs;
        for (int m = 0; m < 3; m++) {
            g_round = modes[m];
            for (int res = 0; res <= 15; res++) {
                int n = vf_special_seeds(res, 1, seeds, 600);
                for (int i = 0; i < n && i < 14; i++)
                    if (VF_MINE(idx++)) case_ball(seeds[i], res <= 1 ? 2 : VF_T(3, 6));
                for (int i = 0; i < VF_T(2, 12); i++) case_ball(vf_rand_cell(&r, res), VF_T(3, 5));
                if (res >= 8)
                    for (int i = 0; i < VF_T(2, 10); i++) {
                        int L = 50 + (int)vf_below(&r, 300);
                        case_long(vf_rand_cell(&r, res), i & 1 ? L : -L, i & 2 ? L : (int)vf_below(&r, (uint64_t)L));
                    }
            }
        }
        g_round = FE_TONEAREST;
        vf_add("pairs.under_directed_rounding", n_pairs - before);
    }
    vf_add("pairs", n_pairs);
    vf_add("paths.success", n_succ);
    vf_add("paths.failed", n_fail);
    vf_add("paths.cells", n_cells);
}
static void replay(const char *spec) {
    uint64_t a, b;
    int R, di, dj;
    vf_map_init(&dist, 4096);
    if (sscanf(spec, "rpath %d %" SCNx64 " %" SCNx64, &R, &a, &b) == 3) g_round = R;
    if (sscanf(spec, "path %" SCNx64 " %" SCNx64, &a, &b) == 2 || sscanf(spec, "rpath %*d %" SCNx64 " %" SCNx64, &a, &b) == 2) {
        int64_t bfs = -1, gd;
        if (!gridDistance(a, b, &gd) && gd < 60) { /* recompute the oracle distance when affordable */
            H3Index *order = NULL;
            if (vf_geo_bfs(a, (int)gd + 2, &dist, &order) > 0) {
                int64_t *dd = vf_map_get(&dist, b);
                bfs = dd ? *dd : -1;
            }
            free(order);
        } else if (a == b)
            bfs = 0;
        else if (geo_adjacent(a, b) == 1)
            bfs = 1;
        judge_path(a, b, bfs);
    } else if (sscanf(spec, "belt %" SCNx64 " %d %d", &a, &R, &di) == 3) {
        case_ball(a, R > 30 ? 30 : R);
    } else if (sscanf(spec, "ball %" SCNx64 " %d", &a, &R) == 2 || sscanf(spec, "from %" SCNx64 " %d", &a, &R) == 2)
        case_ball(a, R > 25 ? 25 : R);
    else if (sscanf(spec, "long %" SCNx64 " %d %d", &a, &di, &dj) == 3)
        case_long(a, di, dj);
    else
        vf_fatal("bad replay spec: %s", spec);
    vf_add("pairs", n_pairs);
}
int main(int argc, char **argv) { return vf_main(argc, argv, "C14", run, replay); }
