/* mon_C16 — cellsToLinkedMultiPolygon outlines exactly the union of the cells
 * (DESIGN.md §5 C16).
 *
 * Oracle (topological, independent of the library's vertex graph):
 *  components  = union-find over geometric adjacency restricted to the set;
 *  loops       = sum over components of 2 - (V - E + F) (Euler characteristic;
 *                V from the canonical vertex indexes validated by C11, E from
 *                the cell edge counts and the number of outline edges);
 *  vertices    = sum over outline stretches (cell edge whose cell across is
 *                not in the set) of (points - 1), from geometric matching;
 *  area        = sum of cellAreaRads2 must equal the signed spherical area
 *                enclosed (outer loops counter-clockwise minus holes).
 * Allocator ledger: empty after destroyLinkedMultiPolygon and after an error.
 */
#include "vf.h"

#ifndef VF_ALLOC
#error "mon_C16 uses the allocator ledger (config asan-alloc)"
#endif
/* The bucket function of vertexGraph.c as it stands in the tree where finding F2 was made, copied here on purpose: the F2
 * signature asks "does THIS quantisation separate two computations of one shared vertex?".  Calling the library's own
 * _hashVertex instead would let a *changed* hash (which splits vertices elsewhere) pass as the known finding. */
static uint32_t f2_bucket(const LatLng *vertex, int res, int numBuckets) {
    return (uint32_t)fmod(fabs((vertex->lat + vertex->lng) * pow(10, 15 - res)), numBuckets);
}

static int cmp_u64(const void *a, const void *b) {
    uint64_t x = *(const uint64_t *)a, y = *(const uint64_t *)b;
    return x < y ? -1 : x > y;
}
typedef struct {
    H3Index *a;
    int64_t n, cap;
} vec;
static void push(vec *v, H3Index h) {
    if (v->n == v->cap) {
        v->cap = v->cap ? v->cap * 2 : 256;
        v->a = realloc(v->a, (size_t)v->cap * 8);
        if (!v->a) vf_fatal("oom");
    }
    v->a[v->n++] = h;
}
static void sort_unique(vec *v) {
    if (v->n > 1) qsort(v->a, (size_t)v->n, 8, cmp_u64);
    int64_t m = 0;
    for (int64_t i = 0; i < v->n; i++)
        if (i == 0 || v->a[i] != v->a[i - 1]) v->a[m++] = v->a[i];
    v->n = m;
}
static int64_t uf_find(int64_t *p, int64_t x) {
    while (p[x] != x) {
        p[x] = p[p[x]];
        x = p[x];
    }
    return x;
}
static int is_pole_cell(H3Index h) {
    LatLng a = {M_PI_2, 0}, b = {-M_PI_2, 0};
    H3Index x = 0, y = 0;
    int res = VF_RES(h);
    latLngToCell(&a, res, &x);
    latLngToCell(&b, res, &y);
    return h == x || h == y;
}
typedef struct {
    V3 p;
    int64_t cell; /* index (in the sorted set) of an input cell that has this boundary vertex */
} bpt;
static int cmp_bpt(const void *a, const void *b) {
    ld x = ((const bpt *)a)->p.x, y = ((const bpt *)b)->p.x;
    return x < y ? -1 : x > y;
}
/* 1-based index of an input cell that has q as a boundary vertex, 0 if none.  (All input cells that meet at one vertex are
 * pairwise edge-adjacent, hence in one component: any of them identifies the component the vertex belongs to.) */
static int64_t is_boundary_point(const bpt *pts, int64_t n, V3 q) {
    int64_t lo = 0, hi = n;
    while (lo < hi) {
        int64_t mid = (lo + hi) / 2;
        if (pts[mid].p.x < q.x - 1e-12L) lo = mid + 1;
        else hi = mid;
    }
    for (int64_t i = lo; i < n && pts[i].p.x <= q.x + 1e-12L; i++) {
        V3 d = v3_sub(pts[i].p, q);
        if (v3_dot(d, d) < 1e-24L) return pts[i].cell + 1;
    }
    return 0;
}
static ld loop_area(const LinkedGeoLoop *l, int *nv) {
    V3 c = v3(0, 0, 0);
    int n = 0;
    for (const LinkedLatLng *p = l->first; p; p = p->next) {
        c = v3_add(c, v3_from_ll(p->vertex));
        n++;
    }
    *nv = n;
    if (n < 3 || v3_len(c) < 1e-9L) return 0;
    c = v3_norm(c);
    ld s = 0;
    for (const LinkedLatLng *p = l->first; p; p = p->next) {
        const LinkedLatLng *q = p->next ? p->next : l->first;
        s += v3_tri_area(c, v3_from_ll(p->vertex), v3_from_ll(q->vertex));
    }
    return s;
}
/* F2 signature: two edge-adjacent input cells whose coinciding boundary vertices hash to different buckets */
static int hash_split(const vec *S, int res) {
    int nb = S->n > 6 ? (int)S->n : 6;
    vf_map idx;
    vf_map_init(&idx, (size_t)S->n);
    for (int64_t i = 0; i < S->n; i++) vf_map_put(&idx, S->a[i], i, NULL);
    int found = 0;
    for (int64_t i = 0; i < S->n && !found; i++) {
        vf_cell A, B;
        H3Index nbv[MAX_CELL_BNDRY_VERTS];
        if (vf_cell_load(S->a[i], &A)) continue;
        int m = vf_geo_neighbors_cached(S->a[i], nbv);
        for (int k = 0; k < m && !found; k++) {
            if (!vf_map_get(&idx, nbv[k]) || nbv[k] < S->a[i]) continue;
            if (vf_cell_load(nbv[k], &B)) continue;
            for (int p = 0; p < A.n && !found; p++)
                for (int q = 0; q < B.n; q++) {
                    V3 d = v3_sub(A.v[p], B.v[q]);
                    if (v3_dot(d, d) < 1e-24L && f2_bucket(&A.g[p], res, nb) != f2_bucket(&B.g[q], res, nb)) {
                        found = 1;
                        break;
                    }
                }
        }
    }
    vf_map_free(&idx);
    return found;
}

/* F10 signature: an edge-connected component whose cells' boundary vertices leave no gap of 180 degrees in longitude — its
 * outline has edges on both sides of the antimeridian and spans more than half a turn (only cells next to a polar cell at
 * res 0-1, or an open ring of cells around a pole, are that wide without reaching the pole). */
static int cmp_dbl(const void *a, const void *b) {
    double x = *(const double *)a, y = *(const double *)b;
    return x < y ? -1 : x > y;
}
static int wide_component(const vec *S, int64_t *uf) {
    double *lng = malloc((size_t)S->n * MAX_CELL_BNDRY_VERTS * sizeof(double));
    int wide = 0;
    for (int64_t root = 0; root < S->n && !wide; root++) {
        if (uf_find(uf, root) != root) continue;
        int64_t m = 0;
        for (int64_t i = 0; i < S->n; i++) {
            vf_cell A;
            if (uf_find(uf, i) != root || vf_cell_load(S->a[i], &A)) continue;
            for (int k = 0; k < A.n; k++) lng[m++] = A.g[k].lng;
        }
        if (m < 3) continue;
        qsort(lng, (size_t)m, sizeof(double), cmp_dbl);
        double gap = lng[0] + 2 * M_PI - lng[m - 1];
        for (int64_t i = 1; i < m; i++)
            if (lng[i] - lng[i - 1] > gap) gap = lng[i] - lng[i - 1];
        if (gap < M_PI) wide = 1;
    }
    free(lng);
    return wide;
}

static int64_t n_sets, n_cells_in;

/* Sets whose outline has no planar reading (they reach or encircle a pole, or wrap the globe) are outside the geometric part
 * of the statement, but not outside its memory clause: whatever the call returns, nothing may stay allocated after an error
 * return, nor after destroyLinkedMultiPolygon following a success.  These are the inputs on which the normalisation step
 * fails half-way (several clockwise loops, some without a containing outer loop). */
static void memory_only(const vec *S, const char *what, uint64_t key) {
    H3Index *in = vf_buf_new((size_t)S->n * 8, 0);
    memcpy(in, S->a, (size_t)S->n * 8);
    LinkedGeoPolygon out;
    memset(&out, 0, sizeof out);
    vfa_reset();
    if (!VF_GUARD()) {
        vf_assert_report("cellsToLinkedMultiPolygon", key);
        VF_UNGUARD();
        vf_buf_free(in);
        return;
    }
    H3Error e = cellsToLinkedMultiPolygon(in, (int)S->n, &out);
    VF_UNGUARD();
    vf_add("memory_only.sets", 1);
    if (e > 15) vf_violation("bad-code", "cellsToLinkedMultiPolygon", key ^ 5, "", "%s: rc=%u", what, e);
    if (e) {
        vf_add("memory_only.error_returns", 1);
        if (VFA.live != 0 || VFA.double_free)
            vf_violation("leak", "cellsToLinkedMultiPolygon", key ^ 1, "", "%s (%" PRId64 " cells): rc=%u but %ld block(s) left allocated, %ld bad free(s)", what, S->n, e, VFA.live, VFA.double_free);
    } else {
        destroyLinkedMultiPolygon(&out);
        if (VFA.live != 0 || VFA.double_free)
            vf_violation("leak", "destroyLinkedMultiPolygon", key ^ 2, "", "%s (%" PRId64 " cells): %ld block(s) live, %ld bad free(s) after destroyLinkedMultiPolygon", what, S->n, VFA.live, VFA.double_free);
    }
    vfa_reset();
    vf_buf_free(in);
}

/* judge one set; kind_prefix distinguishes the exhaustive corpus from sampled sets */
static void judge_set(vec *S, const char *what, int corpus) {
    sort_unique(S);
    if (S->n == 0) return;
    int res = VF_RES(S->a[0]);
    uint64_t key = 1469598103934665603ULL;
    for (int64_t i = 0; i < S->n; i++) key = vf_mix(key ^ S->a[i]);
    for (int64_t i = 0; i < S->n; i++)
        if (is_pole_cell(S->a[i])) {
            vf_add("skipped.reaches_pole", 1);
            memory_only(S, what, key);
            return;
        }
    /* A set that does not contain a pole cell can still encircle the pole (pole inside a hole of the set, or
     * the set wrapping around it): its loops have no planar lat/lng reading either.  Conservative test: the
     * cell-centre longitudes leave no gap of 120 degrees.  Such sets are not judged. */
    if (S->n >= 3) {
        double *lng = malloc((size_t)S->n * sizeof(double));
        int64_t m = 0;
        for (int64_t i = 0; i < S->n; i++) {
            LatLng g;
            if (!cellToLatLng(S->a[i], &g)) lng[m++] = g.lng;
        }
        for (int64_t i = 1; i < m; i++) { /* insertion sort is fine for the sizes used; fall back to qsort-like shell */
            double x = lng[i];
            int64_t j = i - 1;
            while (j >= 0 && lng[j] > x) {
                lng[j + 1] = lng[j];
                j--;
            }
            lng[j + 1] = x;
        }
        double gap = m ? lng[0] + 2 * M_PI - lng[m - 1] : 7;
        for (int64_t i = 1; i < m; i++)
            if (lng[i] - lng[i - 1] > gap) gap = lng[i] - lng[i - 1];
        free(lng);
        if (gap < 2 * M_PI / 3) {
            vf_add("skipped.may_encircle_pole", 1);
            memory_only(S, what, key);
            return;
        }
    }
    /* ---- oracle */
    vf_map idx;
    vf_map_init(&idx, (size_t)S->n);
    for (int64_t i = 0; i < S->n; i++) vf_map_put(&idx, S->a[i], i, NULL);
    int64_t *uf = malloc((size_t)S->n * 8);
    for (int64_t i = 0; i < S->n; i++) uf[i] = i;
    int64_t sum_edges = 0, outline_edges = 0, exp_vertices = 0;
    ld area_cells = 0;
    bpt *pts = malloc((size_t)S->n * MAX_CELL_BNDRY_VERTS * sizeof(bpt));
    ld *cell_area = calloc((size_t)S->n, sizeof(ld)), *comp_area = calloc((size_t)S->n, sizeof(ld));
    char *comp_seen = calloc((size_t)S->n, 1);
    int64_t npts = 0;
    vec verts = {0};
    int undecided = 0;
    for (int64_t i = 0; i < S->n && !undecided; i++) {
        vf_cell A, B;
        H3Index nbv[MAX_CELL_BNDRY_VERTS];
        if (vf_cell_load(S->a[i], &A)) {
            undecided = 1;
            break;
        }
        int m = vf_geo_neighbors_cached(S->a[i], nbv);
        if (m < 0) {
            undecided = 1;
            break;
        }
        for (int k = 0; k < A.n; k++) {
            pts[npts].p = A.v[k];
            pts[npts++].cell = i;
        }

        sum_edges += m;
        double a;
        if (cellAreaRads2(S->a[i], &a)) undecided = 1;
        area_cells += a;
        cell_area[i] = a;
        H3Index V[6] = {0};
        if (cellToVertexes(S->a[i], V)) undecided = 1;
        for (int k = 0; k < 6; k++)
            if (V[k]) push(&verts, V[k]);
        for (int k = 0; k < m; k++) {
            int64_t *j = vf_map_get(&idx, nbv[k]);
            if (j) {
                int64_t ra = uf_find(uf, i), rb = uf_find(uf, *j);
                if (ra != rb) uf[ra] = rb;
            } else {
                outline_edges++;
                int ix[4];
                if (vf_cell_load(nbv[k], &B)) {
                    undecided = 1;
                    break;
                }
                int np = vf_shared_stretch(&A, &B, ix);
                if (np < 2) undecided = 1;
                else exp_vertices += np - 1;
            }
        }
    }
    if (undecided) {
        vf_add("undecided.geometry", 1);
        goto cleanup_oracle;
    }
    /* per-component Euler characteristic */
    sort_unique(&verts);
    int64_t ncomp = 0;
    for (int64_t i = 0; i < S->n; i++) {
        if (uf_find(uf, i) == i) ncomp++;
        comp_area[uf_find(uf, i)] += cell_area[i];
    }
    /* V - E + F summed over components = V - E + F of the whole set (components are disjoint) */
    int64_t Vn = verts.n, En = (sum_edges + outline_edges) / 2, Fn = S->n;
    int64_t exp_loops = 2 * ncomp - (Vn - En + Fn);
    qsort(pts, (size_t)npts, sizeof(bpt), cmp_bpt);
    /* ---- the call */
    H3Index *in = vf_buf_new((size_t)S->n * 8, 0);
    memcpy(in, S->a, (size_t)S->n * 8);
    LinkedGeoPolygon out;
    memset(&out, 0, sizeof out);
    vfa_reset();
    if (!VF_GUARD()) {
        vf_assert_report("cellsToLinkedMultiPolygon", key);
        VF_UNGUARD();
        vf_buf_free(in);
        goto cleanup_oracle;
    }
    H3Error e = cellsToLinkedMultiPolygon(in, (int)S->n, &out);
    VF_UNGUARD();
    n_sets++;
    n_cells_in += S->n;
    char prob[400] = "";
    if (e) {
        snprintf(prob, sizeof prob, "returned rc=%u", e);
        if (VFA.live != 0) vf_violation("leak", "cellsToLinkedMultiPolygon", key ^ 1, "", "%s: rc=%u but %ld block(s) left allocated", what, e, VFA.live);
    } else {
        int64_t npoly = 0, nloops = 0, nverts = 0;
        ld area_out = 0;
        for (const LinkedGeoPolygon *p = &out; p && !prob[0]; p = p->next) {
            if (!p->first) {
                if (p == &out && !p->next) snprintf(prob, sizeof prob, "empty result for a non-empty set");
                continue;
            }
            npoly++;
            int first = 1;
            int64_t pcomp = -1; /* component (union-find root) this polygon's outer loop outlines */
            ld parea = 0;
            for (const LinkedGeoLoop *l = p->first; l && !prob[0]; l = l->next, first = 0) {
                int nv;
                ld a = loop_area(l, &nv);
                nloops++;
                nverts += nv;
                area_out += a;
                parea += a;
                if (nv < 3) snprintf(prob, sizeof prob, "a loop with %d vertices", nv);
                else if (first && !(a > 0)) snprintf(prob, sizeof prob, "outer loop of polygon %" PRId64 " is not counter-clockwise (signed area %.3Lg)", npoly, a);
                else if (!first && !(a < 0)) snprintf(prob, sizeof prob, "hole loop of polygon %" PRId64 " is not clockwise (signed area %.3Lg)", npoly, a);
                for (const LinkedLatLng *q = l->first; q && !prob[0]; q = q->next) {
                    int64_t ci = is_boundary_point(pts, npts, v3_from_ll(q->vertex));
                    if (!ci) {
                        snprintf(prob, sizeof prob, "loop vertex (%.15g, %.15g) is not a boundary vertex of any input cell", q->vertex.lat, q->vertex.lng);
                        break;
                    }
                    int64_t root = uf_find(uf, ci - 1);
                    if (pcomp < 0) pcomp = root;
                    else if (root != pcomp)
                        snprintf(prob, sizeof prob, "polygon %" PRId64 ": %s loop vertex (%.15g, %.15g) belongs to cell %016" PRIx64 " of another component than the polygon's outer loop (cell %016" PRIx64 ")",
                                 npoly, first ? "outer" : "hole", q->vertex.lat, q->vertex.lng, S->a[ci - 1], S->a[pcomp]);
                }
            }
            if (!prob[0] && pcomp >= 0) {
                /* one polygon per component, and it encloses exactly that component's cells */
                if (comp_seen[pcomp]) snprintf(prob, sizeof prob, "two polygons outline the component of cell %016" PRIx64, S->a[pcomp]);
                comp_seen[pcomp] = 1;
                if (!prob[0] && fabsl(parea - comp_area[pcomp]) > 1e-7L * comp_area[pcomp])
                    snprintf(prob, sizeof prob, "polygon %" PRId64 " (outer loop + holes) encloses %.12Lg, the cells of its component (around %016" PRIx64 ") sum to %.12Lg", npoly, parea, S->a[pcomp], comp_area[pcomp]);
            }
        }
        if (!prob[0]) {
            if (npoly != ncomp) snprintf(prob, sizeof prob, "%" PRId64 " polygons for %" PRId64 " edge-connected components", npoly, ncomp);
            else if (nloops != exp_loops) snprintf(prob, sizeof prob, "%" PRId64 " loops, topology of the set requires %" PRId64 " (%" PRId64 " components)", nloops, exp_loops, ncomp);
            else if (nverts != exp_vertices) snprintf(prob, sizeof prob, "%" PRId64 " loop vertices, the outline has %" PRId64, nverts, exp_vertices);
            else if (fabsl(area_out - area_cells) > 1e-7L * area_cells)
                snprintf(prob, sizeof prob, "enclosed area %.12Lg, sum of cell areas %.12Lg", area_out, area_cells);
            vf_maxd("area_rel_diff", (double)(fabsl(area_out - area_cells) / area_cells));
        }
        destroyLinkedMultiPolygon(&out);
        if (VFA.live != 0 || VFA.double_free)
            vf_violation("leak", "destroyLinkedMultiPolygon", key ^ 2, "", "%s: %ld block(s) live, %ld bad free(s) after destroyLinkedMultiPolygon", what, VFA.live, VFA.double_free);
        if (exp_loops > ncomp) vf_add("sets.with_holes", 1);
        if (ncomp > 1) vf_add("sets.multi_component", 1);
    }
    vfa_reset();
    if (prob[0]) {
        /* attribution: "wide-component" is the signature of open finding F10; the bucket-split note is a diagnostic only
         * (F2 is repaired: nothing is matched by it any more) */
        const char *sig = wide_component(S, uf) ? "wide-component" : "";
        int split = hash_split(S, res);
        vf_violation(corpus ? "corpus-outline" : "outline", "cellsToLinkedMultiPolygon", key, sig, "%s (%" PRId64 " cells, res %d): %s%s%s", what, S->n, res, prob,
                     *sig ? " [a component spans more than 180 degrees of longitude]" : "",
                     split ? " [two adjacent input cells have coinciding vertices in different buckets of the vertex hash]" : "");
    }
    if (S->n > 1) vf_distinct(key);
    vf_sample("%s: %" PRId64 " cells res %d -> %" PRId64 " component(s), %" PRId64 " loop(s), %" PRId64 " outline vertices: %s", what, S->n, res, ncomp, exp_loops, exp_vertices, prob[0] ? prob : "as expected");
    vf_buf_free(in);
cleanup_oracle:
    vf_map_free(&idx);
    free(uf);
    free(pts);
    free(cell_area);
    free(comp_area);
    free(comp_seen);
    free(verts.a);
}

/* ---- set generators */
static void set_from_seed(uint64_t seed) {
    vf_case("set %016" PRIx64, seed);
    vf_rng r;
    vf_rng_seed(&r, seed);
    int res = (int)vf_below(&r, 16);
    if (res < 3 && vf_below(&r, 4)) res = 3 + (int)vf_below(&r, 13); /* coarse resolutions are covered by the corpus */
    vec S = {0};
    char what[200];
    int o = snprintf(what, sizeof what, "set %016" PRIx64 ":", seed);
    int nparts = 1 + (int)vf_below(&r, 3);
    for (int part = 0; part < nparts; part++) {
        H3Index c;
        switch (vf_below(&r, 5)) {
            case 0: c = vf_make_cell(res, REF_PENT_BC[vf_below(&r, 12)], (int[15]){0}); break;
            case 1: { /* antimeridian */
                LatLng g = {asin(2 * vf_unit(&r) - 1) * 0.8, vf_below(&r, 2) ? M_PI : -M_PI};
                if (latLngToCell(&g, res, &c)) c = vf_rand_cell(&r, res);
                break;
            }
            default: c = vf_rand_cell(&r, res);
        }
        if (part > 0 && vf_below(&r, 2) && S.n) { /* near the previous part: components may touch or stay apart */
            H3Index d[61] = {0};
            if (!gridDisk(S.a[vf_below(&r, (uint64_t)S.n)], 4, d)) {
                H3Index x = d[vf_below(&r, 61)];
                if (x) c = x;
            }
        }
        int k = (int)vf_below(&r, res <= 1 ? 2 : res == 2 ? 4 : VF_T(9, 16));
        int64_t sz;
        maxGridDiskSize(k, &sz);
        H3Index *d = calloc((size_t)sz, 8);
        if (!gridDisk(c, k, d)) {
            double drop = vf_below(&r, 2) ? 0 : 0.05 + 0.4 * vf_unit(&r); /* random removals: holes, islands in holes */
            for (int64_t i = 0; i < sz; i++)
                if (d[i] && vf_unit(&r) >= drop) push(&S, d[i]);
        }
        free(d);
        o += snprintf(what + o, sizeof what - (size_t)o, " disk(%016" PRIx64 ",%d)", c, k);
    }
    judge_set(&S, what, 0);
    free(S.a);
}
/* concentric rings: a random selection of the distance-rings around a centre (nested polygons: islands with holes inside the
 * holes of larger rings), plus a few separate cells outside — the arrangement in which the assignment of holes to outer loops
 * has several candidate containers */
static void rings_from_seed(uint64_t seed) {
    vf_case("rings %016" PRIx64, seed);
    vf_rng r;
    vf_rng_seed(&r, seed);
    int res = 3 + (int)vf_below(&r, 13); /* res 0-2: the corpus; larger sets there mostly run into known finding F2 */
    H3Index c = vf_below(&r, 6) ? vf_rand_cell(&r, res) : vf_make_cell(res, REF_PENT_BC[vf_below(&r, 12)], (int[15]){0});
    int K = 4 + (int)vf_below(&r, VF_T(5, 8));
    int64_t sz;
    maxGridDiskSize(K, &sz);
    H3Index *d = calloc((size_t)sz, 8);
    int *dist = calloc((size_t)sz, sizeof(int));
    vec S = {0};
    char what[200];
    int o = snprintf(what, sizeof what, "rings %016" PRIx64 ": centre %016" PRIx64 " rings", seed, c);
    if (!gridDiskDistances(c, K, d, dist)) {
        unsigned keep = 0;
        /* alternate kept / dropped rings with random phase and occasional double-width rings */
        int on = (int)vf_below(&r, 2);
        for (int k = 0; k <= K; k++) {
            if (on) keep |= 1u << k;
            if (vf_below(&r, 4)) on = !on;
        }
        keep |= 1u << K; /* something outside */
        for (int k = 0; k <= K; k++)
            if (keep >> k & 1) o += snprintf(what + o, sizeof what - (size_t)o, " %d", k);
        int outside = (int)vf_below(&r, 4); /* single cells of the outermost ring only: extra components */
        for (int64_t i = 0; i < sz; i++) {
            if (!d[i]) continue;
            if (dist[i] == K) {
                if (outside == 0 || vf_below(&r, (uint64_t)(2 * K)) < (uint64_t)outside) push(&S, d[i]);
            } else if (keep >> dist[i] & 1)
                push(&S, d[i]);
        }
    }
    free(d);
    free(dist);
    vf_add("sets.rings", 1);
    judge_set(&S, what, 0);
    free(S.a);
}

/* a target: every second distance ring out to K = 17..23, i.e. nine to twelve ring-shaped components nested inside each other —
 * the innermost hole has that many candidate containers (a fixed-size candidate list, or a quadratic shortcut, is wrong only
 * at such depths) */
static void target_from_seed(uint64_t seed) {
    vf_case("target %016" PRIx64, seed);
    vf_rng r;
    vf_rng_seed(&r, seed);
    int res = 3 + (int)vf_below(&r, 13);
    H3Index c = vf_below(&r, 8) ? vf_rand_cell(&r, res) : vf_make_cell(res, REF_PENT_BC[vf_below(&r, 12)], (int[15]){0});
    int K = 17 + 2 * (int)vf_below(&r, 4), phase = (int)vf_below(&r, 2);
    int64_t sz;
    maxGridDiskSize(K, &sz);
    H3Index *d = calloc((size_t)sz, 8);
    int *dist = calloc((size_t)sz, sizeof(int));
    vec S = {0};
    char what[200];
    snprintf(what, sizeof what, "target %016" PRIx64 ": centre %016" PRIx64 ", every second ring (%s) out to %d", seed, c, phase ? "odd" : "even", K);
    if (!gridDiskDistances(c, K, d, dist))
        for (int64_t i = 0; i < sz; i++)
            if (d[i] && (dist[i] & 1) == phase) push(&S, d[i]);
    free(d);
    free(dist);
    vf_add("sets.targets_nine_or_more_rings", 1);
    judge_set(&S, what, 0);
    free(S.a);
}

/* a whole coarse resolution minus two or three patches: the set wraps the globe, its "holes" have no enclosing outer loop */
static void globe_minus_patches(uint64_t seed) {
    vf_case("globe %016" PRIx64, seed);
    vf_rng r;
    vf_rng_seed(&r, seed);
    int res = (int)vf_below(&r, 3);
    int np = 2 + (int)vf_below(&r, 2);
    vf_map drop;
    vf_map_init(&drop, 256);
    char what[200];
    int o = snprintf(what, sizeof what, "globe %016" PRIx64 ": all res-%d cells except", seed, res);
    for (int p = 0; p < np; p++) {
        H3Index c = vf_rand_cell(&r, res);
        int k = res == 0 ? 0 : (int)vf_below(&r, res == 1 ? 2 : 4);
        int64_t sz;
        maxGridDiskSize(k, &sz);
        H3Index *d = calloc((size_t)sz, 8);
        if (!gridDisk(c, k, d))
            for (int64_t i = 0; i < sz; i++)
                if (d[i]) vf_map_put(&drop, d[i], 1, NULL);
        free(d);
        o += snprintf(what + o, sizeof what - (size_t)o, " disk(%016" PRIx64 ",%d)", c, k);
    }
    vec S = {0};
    int zero[15] = {0};
    for (int bc = 0; bc < 122; bc++) {
        ref_child_iter it;
        for (ref_child_iter_init(&it, vf_make_cell(0, bc, zero), res); !it.done; ref_child_iter_next(&it))
            if (!vf_map_get(&drop, it.h)) push(&S, it.h);
    }
    vf_map_free(&drop);
    sort_unique(&S);
    uint64_t key = vf_mix(seed ^ 0x610BE);
    memory_only(&S, what, key);
    vf_add("sets.globe_minus_patches", 1);
    free(S.a);
}

/* exhaustive corpus of the coarse resolutions: every 1-disk and every neighbour pair */
static void corpus(int res) {
    int64_t idx = 0;
    int zero[1] = {0};
    for (int bc = 0; bc < 122; bc++) {
        ref_child_iter it;
        for (ref_child_iter_init(&it, vf_make_cell(0, bc, zero), res); !it.done; ref_child_iter_next(&it)) {
            if (!VF_MINE(idx++)) continue;
            H3Index nb[MAX_CELL_BNDRY_VERTS];
            int m = vf_geo_neighbors_cached(it.h, nb);
            if (m < 0) continue;
            vec S = {0};
            char what[96];
            push(&S, it.h);
            for (int k = 0; k < m; k++) push(&S, nb[k]);
            vf_case("disk1 %016" PRIx64, it.h);
            snprintf(what, sizeof what, "1-disk of %016" PRIx64, it.h);
            judge_set(&S, what, 1);
            for (int k = 0; k < m; k++) {
                if (nb[k] < it.h) continue;
                S.n = 0;
                push(&S, it.h);
                push(&S, nb[k]);
                vf_case("pair %016" PRIx64 " %016" PRIx64, it.h, nb[k]);
                snprintf(what, sizeof what, "pair %016" PRIx64 " %016" PRIx64, it.h, nb[k]);
                judge_set(&S, what, 1);
            }
            vf_add("corpus.origins", 1);
            free(S.a);
        }
    }
}

static void witness_f2(void) {
    vec S = {0};
    push(&S, 0x8007fffffffffffULL);
    push(&S, 0x8009fffffffffffULL);
    vf_case("pair 08007fffffffffff 08009fffffffffff");
    LinkedGeoPolygon out;
    memset(&out, 0, sizeof out);
    H3Error e = cellsToLinkedMultiPolygon(S.a, 2, &out);
    int polys = 0;
    if (!e) {
        for (LinkedGeoPolygon *p = &out; p; p = p->next) polys++;
        destroyLinkedMultiPolygon(&out);
    }
    vfa_reset();
    vf_witness("F2", e || polys != 1, "cells 8007fffffffffff + 8009fffffffffff (neighbours): rc=%u, %d polygon(s)", e, polys);
    free(S.a);
}

/* witness of open finding F10: the res-0 neighbours 8003 + 8007 (next to the north polar cell 8001, which is NOT in the set:
 * the footprint does not reach the pole) outline to one loop from longitude 145.6 E eastwards across the antimeridian to
 * 0.3 E — 214 degrees wide; with a second component (8029) present the normalisation step has to orient the loops, takes the
 * wide one for a hole and gives up with E_FAILED. */
static void witness_f10(void) {
    vec S = {0};
    push(&S, 0x8003fffffffffffULL);
    push(&S, 0x8007fffffffffffULL);
    push(&S, 0x8029fffffffffffULL);
    vf_case("witness-f10");
    LinkedGeoPolygon out;
    memset(&out, 0, sizeof out);
    H3Error e = cellsToLinkedMultiPolygon(S.a, 3, &out);
    int polys = 0;
    if (!e) {
        for (LinkedGeoPolygon *p = &out; p; p = p->next) polys++;
        destroyLinkedMultiPolygon(&out);
    }
    vfa_reset();
    vf_witness("F10", e || polys != 2, "cells 8003fffffffffff + 8007fffffffffff (neighbours, 214 degrees wide) and 8029fffffffffff: rc=%u, %d polygon(s)", e, polys);
    judge_set(&S, "witness-f10: 08003fffffffffff 08007fffffffffff 08029fffffffffff", 0); /* through the oracle: must carry the signature */
    free(S.a);
}

static void run(void) {
    vf_rng r;
    vf_rng_stream(&r, 16);
    if (VF.shard == 0) witness_f2();
    if (VF.shard == 0) witness_f10();
    for (int res = 0; res <= VF_T(2, 3); res++) corpus(res);
    int n = VF_T(500, 8000);
    for (int i = 0; i < n; i++) set_from_seed(vf_u64(&r));
    int nr = VF_T(400, 6000);
    for (int i = 0; i < nr; i++) rings_from_seed(vf_u64(&r));
    int nt = VF_T(6, 60);
    for (int i = 0; i < nt; i++) target_from_seed(vf_u64(&r));
    int ng = VF_T(40, 600);
    for (int i = 0; i < ng; i++) globe_minus_patches(vf_u64(&r));
    vf_add("sets", n_sets);
    vf_add("cells_in", n_cells_in);
}
static void replay(const char *spec) {
    uint64_t a, b;
    vec S = {0};
    if (sscanf(spec, "set %" SCNx64, &a) == 1)
        set_from_seed(a);
    else if (sscanf(spec, "rings %" SCNx64, &a) == 1)
        rings_from_seed(a);
    else if (sscanf(spec, "target %" SCNx64, &a) == 1)
        target_from_seed(a);
    else if (sscanf(spec, "globe %" SCNx64, &a) == 1)
        globe_minus_patches(a);
    else if (!strncmp(spec, "witness-f10", 11))
        witness_f10();
    else if (sscanf(spec, "pair %" SCNx64 " %" SCNx64, &a, &b) == 2) {
        push(&S, a);
        push(&S, b);
        judge_set(&S, "pair", 1);
    } else if (sscanf(spec, "disk1 %" SCNx64, &a) == 1) {
        H3Index nb[MAX_CELL_BNDRY_VERTS];
        int m = vf_geo_neighbors_cached(a, nb);
        push(&S, a);
        for (int k = 0; k < m; k++) push(&S, nb[k]);
        judge_set(&S, "1-disk", 1);
    } else
        vf_fatal("bad replay spec: %s", spec);
    vf_add("sets", n_sets);
}
int main(int argc, char **argv) { return vf_main(argc, argv, "C16", run, replay); }
