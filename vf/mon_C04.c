/* mon_C04 — parent/children form an exact tree partition (DESIGN.md §5 C04).
 * Oracle: reference child enumerator / rank from the documented digit layout
 * (vf_kit.c), never the library iterator. */
#include "vf.h"

static ld c02_tol(double lat) {
    ld t = 4e-15L / cosl((ld)lat);
    return t > 2e-12L ? t : 2e-12L;
}

static void case_children(H3Index h, int cres) {
    vf_case("children %016" PRIx64 " %d", h, cres);
    uint64_t key = vf_mix(h) ^ vf_mix((uint64_t)cres + 1000);
    int pres = VF_RES(h);
    int64_t n = -1;
    H3Error e;
    if (!VF_GUARD()) {
        vf_assert_report("cellToChildren", key);
        VF_UNGUARD();
        return;
    }
    e = cellToChildrenSize(h, cres, &n);
    int64_t want = ref_children_count(h, cres);
    vf_add("children.cases", 1);
    if (e || n != want) {
        vf_violation("size", "cellToChildrenSize", key, "", "rc=%u size=%" PRId64 " expected %" PRId64, e, n, want);
        VF_UNGUARD();
        return;
    }
    H3Index *ch = vf_buf_new((size_t)n * 8, 0);
    e = cellToChildren(h, cres, ch);
    if (e) {
        vf_violation("error", "cellToChildren", key, "", "rc=%u on valid (cell,childRes)", e);
        goto out;
    }
    if (vf_buf_check(ch)) vf_violation("overrun", "cellToChildren", key, "", "canary damaged");
    ref_child_iter it;
    int64_t i = 0;
    int bad = 0;
    for (ref_child_iter_init(&it, h, cres); !it.done && i < n; ref_child_iter_next(&it), i++) {
        if (ch[i] != it.h && !bad) {
            bad = 1;
            vf_violation("list", "cellToChildren", key, "", "slot %" PRId64 " holds %016" PRIx64 ", reference child list has %016" PRIx64, i, ch[i], it.h);
        }
        if (i && ch[i] <= ch[i - 1] && !bad) {
            bad = 1;
            vf_violation("order", "cellToChildren", key, "", "not strictly increasing at slot %" PRId64, i);
        }
        H3Index p = 0;
        H3Error pe = cellToParent(ch[i], pres, &p);
        if ((pe || p != h) && !bad) {
            bad = 1;
            vf_violation("parent", "cellToParent", key, "", "child %016" PRIx64 ": cellToParent(.,%d) rc=%u -> %016" PRIx64, ch[i], pres, pe, p);
        }
    }
    if ((i != n || !it.done) && !bad) vf_violation("list", "cellToChildren", key, "", "length differs from reference enumeration");
    vf_add("children.cells", n);
    for (int64_t j = 0; j < n && j < 64; j++) vf_out_cell("cellToChildren", ch[j], cres);
    /* centre child */
    H3Index cc = 0;
    e = cellToCenterChild(h, cres, &cc);
    if (e || cc != ch[0]) vf_violation("center", "cellToCenterChild", key, "", "rc=%u -> %016" PRIx64 " but first child is %016" PRIx64, e, cc, ch[0]);
    else {
        vf_out_cell("cellToCenterChild", cc, cres);
        LatLng a, b;
        if (!cellToLatLng(h, &a) && !cellToLatLng(cc, &b)) {
            ld d = v3_angle(v3_from_ll(a), v3_from_ll(b));
            vf_maxd("center_child_offset_rad", (double)d);
            if (d > c02_tol(a.lat))
                vf_violation("center-geo", "cellToCenterChild", key, "", "centre of centre child is %.3Lg rad from the parent's centre (tol %.3Lg)", d, c02_tol(a.lat));
        } else
            vf_violation("error", "cellToLatLng", key, "", "cellToLatLng failed on valid cell");
    }
    if (n > 1) vf_distinct(key);
    vf_sample("cellToChildren(%016" PRIx64 ", %d): %" PRId64 " children, first %016" PRIx64 " last %016" PRIx64, h, cres, n, ch[0], ch[n - 1]);
out:
    VF_UNGUARD();
    vf_buf_free(ch);
}

/* sizes and centre children where the list itself cannot be materialised (up to 7^15 children): closed forms against the two
 * size-only functions, the centre child against digit arithmetic (zeros appended) and the parent's centre point */
static void case_size_only(H3Index h, int cres) {
    vf_case("size %016" PRIx64 " %d", h, cres);
    uint64_t key = vf_mix(h) ^ vf_mix((uint64_t)cres + 7000);
    if (!VF_GUARD()) {
        vf_assert_report("cellToChildrenSize", key);
        VF_UNGUARD();
        return;
    }
    int64_t n = -1, want = ref_children_count(h, cres);
    H3Error e = cellToChildrenSize(h, cres, &n);
    vf_add("sizeonly.cases", 1);
    if (e || n != want) vf_violation("size", "cellToChildrenSize", key, "", "cellToChildrenSize(%016" PRIx64 ", %d) rc=%u size=%" PRId64 " expected %" PRId64, h, cres, e, n, want);
    H3Index cc = 0, wantcc = h;
    for (int r = VF_RES(h) + 1; r <= cres; r++) wantcc = vf_set_digit(wantcc, r, 0);
    wantcc = vf_set_res(wantcc, cres);
    e = cellToCenterChild(h, cres, &cc);
    if (e || cc != wantcc) vf_violation("center", "cellToCenterChild", key, "", "cellToCenterChild(%016" PRIx64 ", %d) rc=%u -> %016" PRIx64 " expected %016" PRIx64, h, cres, e, cc, wantcc);
    else {
        vf_out_cell("cellToCenterChild", cc, cres);
        LatLng a, b;
        if (!cellToLatLng(h, &a) && !cellToLatLng(cc, &b)) {
            ld d = v3_angle(v3_from_ll(a), v3_from_ll(b));
            vf_maxd("center_child_offset_rad", (double)d);
            if (d > c02_tol(a.lat)) vf_violation("center-geo", "cellToCenterChild", key, "", "centre of the res-%d centre child of %016" PRIx64 " is %.3Lg rad from the parent's centre (tol %.3Lg)", cres, h, d, c02_tol(a.lat));
        }
        H3Index back = 0;
        e = cellToParent(cc, VF_RES(h), &back);
        if (e || back != h) vf_violation("parent", "cellToParent", key, "", "cellToParent(centre child %016" PRIx64 ", %d) rc=%u -> %016" PRIx64, cc, VF_RES(h), e, back);
    }
    if (cres > VF_RES(h)) vf_distinct(key);
    VF_UNGUARD();
}

/* converse: c is at the reference rank in each ancestor's child list */
static void case_ancestors(H3Index c) {
    vf_case("ancestors %016" PRIx64, c);
    int res = VF_RES(c);
    uint64_t key = vf_mix(c ^ 0xA11CE);
    if (!VF_GUARD()) {
        vf_assert_report("cellToParent", key);
        VF_UNGUARD();
        return;
    }
    int64_t cap = VF_T(16807, 117649);
    for (int pr = res; pr >= 0; pr--) {
        H3Index p = 0;
        H3Error e = cellToParent(c, pr, &p);
        uint64_t want = ref_parent(c, pr);
        vf_add("ancestor.pairs", 1);
        if (e || p != want) {
            vf_violation("parent", "cellToParent", key, "", "cellToParent(%016" PRIx64 ",%d) rc=%u -> %016" PRIx64 " expected %016" PRIx64, c, pr, e, p, want);
            continue;
        }
        vf_out_cell("cellToParent", p, pr);
        int64_t n, rank = ref_child_rank(c, pr);
        if (cellToChildrenSize(p, res, &n) || n != ref_children_count(p, res)) {
            vf_violation("size", "cellToChildrenSize", key, "", "ancestor %016" PRIx64 " childRes %d", p, res);
            continue;
        }
        if (n <= cap) {
            H3Index *ch = vf_buf_new((size_t)n * 8, 0);
            if (cellToChildren(p, res, ch) || ch[rank] != c)
                vf_violation("member", "cellToChildren", key, "", "%016" PRIx64 " is not at its rank %" PRId64 " among the children of its ancestor %016" PRIx64,
                             c, rank, p);
            vf_add("ancestor.list_checked", 1);
            vf_buf_free(ch);
        } else {
            H3Index x = 0;
            if (childPosToCell(rank, p, res, &x) || x != c)
                vf_violation("member", "childPosToCell", key, "", "%016" PRIx64 " not at rank %" PRId64 " under ancestor %016" PRIx64 " (got %016" PRIx64 ")", c,
                             rank, p, x);
            vf_add("ancestor.pos_checked", 1);
        }
    }
    VF_UNGUARD();
    if (res > 0) vf_distinct(key);
}

static void case_errors(H3Index h, vf_rng *r) {
    int res = VF_RES(h);
    uint64_t key = vf_mix(h ^ 0xE44);
    for (int t = 0; t < 6; t++) {
        int x = vf_hostile_int(r);
        H3Index o = 0;
        int64_t n = 0;
        vf_case("errors %016" PRIx64 " %d", h, x);
        if (!VF_GUARD()) {
            vf_assert_report("cellToParent", key);
            VF_UNGUARD();
            return;
        }
        H3Error e = cellToParent(h, x, &o);
        H3Error want = (x < 0 || x > 15) ? E_RES_DOMAIN : x > res ? E_RES_MISMATCH : E_SUCCESS;
        if (e != want) vf_violation("wrong-code", "cellToParent", key ^ (uint64_t)x, "", "cellToParent(res %d cell, %d) rc=%u expected %u", res, x, e, want);
        want = (x < res || x > 15) ? E_RES_DOMAIN : E_SUCCESS;
        e = cellToChildrenSize(h, x, &n);
        if (e != want) vf_violation("wrong-code", "cellToChildrenSize", key ^ (uint64_t)x, "", "cellToChildrenSize(res %d cell, %d) rc=%u expected %u", res, x, e, want);
        e = cellToCenterChild(h, x, &o);
        if (e != want) vf_violation("wrong-code", "cellToCenterChild", key ^ (uint64_t)x, "", "cellToCenterChild(res %d cell, %d) rc=%u expected %u", res, x, e, want);
        VF_UNGUARD();
        vf_add("errors.calls", 3);
        if (want) vf_add("errors.rejected", 1);
    }
}

/* ---- iterator steps from deep states (round 9; closes W8_C04) -------------------------------------------------------------
 * cellToChildren / uncompactCells / polygonToCells all walk the child iterator (_iterInitParent + iterStepChild).  A family
 * ten or more levels deep (2.8e8 .. 4.7e12 children) cannot be materialised, so the steps that carry through nine to fifteen
 * digits are unreachable through cellToChildren.  Here the library's own iterator is initialised by the library for a hexagon
 * parent, its current cell is replaced by the reference child number `pos`, and it is stepped: the cells it then holds must
 * be the reference children pos+1, pos+2, ... (H3_NULL after the last).
 * Soundness of replacing the current cell: the iterator is an internal struct, so nothing is assumed about it except what is
 * *observed* in this process — a calibration walks complete shallow families with the real iterator and requires that (a) its
 * first eight bytes are always the current child and (b) every other byte the library wrote stays constant over the whole
 * walk of a hexagon family.  If the symbols are absent or the calibration does not hold (a refactor of the iterator), the
 * phase is skipped and counted as such (inconclusive for this phase), never reported. */
typedef union {
    uint64_t h;
    unsigned char raw[256];
} jump_iter;
extern void _iterInitParent(uint64_t h, int childRes, void *iter) __attribute__((weak));
extern void iterStepChild(void *iter) __attribute__((weak));
static int g_jump_ok = -1;

static uint64_t hex_child_at(uint64_t p, int cres, uint64_t pos) {
    uint64_t c = vf_set_res(p, cres);
    for (int r = cres; r > VF_RES(p); r--) {
        c = vf_set_digit(c, r, (int)(pos % 7));
        pos /= 7;
    }
    return c;
}
static uint64_t pow7(int n) {
    uint64_t v = 1;
    while (n-- > 0) v *= 7;
    return v;
}
static int jump_calibrate(vf_rng *r) {
    if (!_iterInitParent || !iterStepChild) return 0;
    for (int t = 0; t < 6; t++) {
        int res = (int)vf_below(r, 12);
        uint64_t p = vf_rand_cell(r, res);
        if (ref_is_pentagon(p)) continue;
        int cres = res + 1 + (int)vf_below(r, 3);
        jump_iter a, first;
        memset(&a, 0xA5, sizeof a);
        _iterInitParent(p, cres, &a);
        first = a;
        uint64_t n = pow7(cres - res);
        for (uint64_t i = 0; i < n; i++) {
            if (a.h != hex_child_at(p, cres, i)) return 0;
            if (memcmp(a.raw + 8, first.raw + 8, sizeof a.raw - 8)) return 0;
            iterStepChild(&a);
        }
        if (a.h != 0) return 0;
    }
    return 1;
}
static void case_jump(uint64_t p, int cres, uint64_t pos, int steps) {
    vf_case("jump %016" PRIx64 " %d %" PRIu64 " %d", p, cres, pos, steps);
    uint64_t key = vf_mix(p) ^ vf_mix(pos * 16 + (uint64_t)cres);
    if (!VF_GUARD()) {
        vf_assert_report("iterStepChild", key);
        VF_UNGUARD();
        return;
    }
    uint64_t n = pow7(cres - VF_RES(p));
    jump_iter a;
    memset(&a, 0xA5, sizeof a);
    _iterInitParent(p, cres, &a);
    if (a.h != hex_child_at(p, cres, 0)) {
        vf_violation("iter-init", "cellToChildren", key, "", "child iterator of %016" PRIx64 " at res %d starts at %016" PRIx64 ", reference first child %016" PRIx64, p, cres, a.h, hex_child_at(p, cres, 0));
        VF_UNGUARD();
        return;
    }
    a.h = hex_child_at(p, cres, pos);
    int carry = 0;
    for (uint64_t q = pos + 1; q % 7 == 0 && carry < cres - VF_RES(p); q /= 7) carry++;
    for (int s = 1; s <= steps; s++) {
        iterStepChild(&a);
        uint64_t want = pos + (uint64_t)s < n ? hex_child_at(p, cres, pos + (uint64_t)s) : 0;
        if (a.h != want) {
            vf_violation("iter-step", "cellToChildren", key, "",
                         "child iterator of %016" PRIx64 " at res %d, holding child #%" PRIu64 " (%016" PRIx64 "), steps to %016" PRIx64 "; child #%" PRIu64 " is %016" PRIx64
                         " (cellToChildren and uncompactCells of this family would list it)",
                         p, cres, pos + (uint64_t)s - 1, hex_child_at(p, cres, pos + (uint64_t)s - 1), a.h, pos + (uint64_t)s, want);
            break;
        }
        if (want) {
            if (s == 1) vf_out_cell("cellToChildren", a.h, cres);
        } else
            break;
    }
    vf_add("jump.cases", 1);
    {
        char nm[48];
        snprintf(nm, sizeof nm, "jump.carry_through_%02d_digits", carry);
        vf_add(nm, 1);
    }
    if (cres - VF_RES(p) >= 10) vf_add("jump.families_ten_or_more_levels_deep", 1);
    vf_distinct(key);
    VF_UNGUARD();
}
static void phase_jump(vf_rng *r, int64_t *idx) {
    if (g_jump_ok < 0) g_jump_ok = jump_calibrate(r);
    if (!g_jump_ok) {
        vf_add("jump.skipped_iterator_not_observable", 1);
        return;
    }
    vf_add("jump.calibrated", 1);
    int nc = VF_T(30000, 600000);
    for (int i = 0; i < nc; i++) {
        int res = (int)vf_below(r, 15);
        uint64_t p = vf_rand_cell(r, res);
        int nlev = 1 + (int)vf_below(r, (uint64_t)(15 - res));
        if (i % 3 == 0) nlev = 15 - res; /* deepest family of this parent */
        int cres = res + nlev;
        int j = 1 + (int)vf_below(r, (uint64_t)nlev); /* run of at least j sixes at the fine end */
        uint64_t m = 1 + vf_below(r, pow7(nlev - j));
        uint64_t pos = m * pow7(j) - 1;
        int back = (int)vf_below(r, 3); /* start 0..2 children before the carry */
        if ((uint64_t)back > pos) back = 0;
        if (i % 50 == 0) pos = pow7(nlev) - 1, back = (int)vf_below(r, 2) & (pos > 0);
        if (i % 7 == 3) pos = vf_below(r, pow7(nlev)), back = 0;
        if (ref_is_pentagon(p) || !VF_MINE((*idx)++)) continue;
        case_jump(p, cres, pos - (uint64_t)back, back + 2);
    }
}

static void run(void) {
    vf_rng r;
    vf_rng_stream(&r, 4);
    int64_t idx = 0;
    int zero[1] = {0};
    /* whole coarse resolutions x child depths */
    int depth[3] = {VF_T(4, 6), VF_T(3, 5), VF_T(2, 4)};
    for (int res = 0; res <= 2; res++) {
        for (int bc = 0; bc < 122; bc++) {
            ref_child_iter it;
            for (ref_child_iter_init(&it, vf_make_cell(0, bc, zero), res); !it.done; ref_child_iter_next(&it))
                for (int d = 0; d <= depth[res]; d++)
                    if (VF_MINE(idx++)) case_children(it.h, res + d);
        }
    }
    /* pentagons at every resolution x every depth that fits; their hexagon children; hexagons at every res */
    int64_t cap = VF_T(16807, 823543);
    for (int res = 0; res <= 15; res++)
        for (int k = 0; k < 12; k++) {
            H3Index p = vf_make_cell(res, REF_PENT_BC[k], (int[15]){0});
            for (int cr = res; cr <= 15; cr++) {
                if (ref_children_count(p, cr) > cap) break;
                if (VF_MINE(idx++)) case_children(p, cr);
            }
            if (res < 15)
                for (int d = 2; d <= 6; d++) {
                    /* child that leaves the pentagon chain at this level */
                    H3Index c = vf_set_digit(vf_set_res(p, res + 1), res + 1, d);
                    for (int cr = res + 1; cr <= 15 && cr <= res + VF_T(3, 5); cr++)
                        if (VF_MINE(idx++)) case_children(c, cr);
                    if (VF_MINE(idx++)) case_ancestors(c);
                }
            if (VF_MINE(idx++)) case_ancestors(p);
        }
    /* complete families eight levels deep (5 764 801 children of a hexagon, 4 804 001 of a pentagon): the step from one child to
     * the next carries through up to eight digits; shallower families never carry through more than their depth */
    {
        int nd = VF_T(2, 6);
        for (int i = 0; i < nd; i++) {
            int res = (int)vf_below(&r, 8);
            H3Index h = (i & 1) ? vf_make_cell(res, REF_PENT_BC[vf_below(&r, 12)], (int[15]){0}) : vf_rand_cell(&r, res);
            if (VF_MINE(idx++)) {
                case_children(h, res + 8);
                vf_add("children.families_eight_levels_deep", 1);
            }
        }
    }
    /* cells that left a pentagon's centre chain early and then followed centre children for many levels (a hexagon whose
     * trailing digits are all zero on a pentagon base cell): the digit pattern where "is this still a pentagon?" shortcuts go wrong */
    for (int k = 0; k < 12; k++)
        for (int L = 1; L <= 6; L++)
            for (int d = 2; d <= 6; d += (VF.thorough ? 1 : 2))
                for (int r = L; r <= 14; r++) {
                    if (!VF_MINE(idx++)) continue;
                    int dg[15] = {0};
                    dg[L - 1] = d;
                    H3Index c = vf_make_cell(r, REF_PENT_BC[k], dg);
                    case_children(c, r + 1);
                    if (r + 2 <= 15) case_children(c, r + 2);
                    if (r >= L + 6) case_ancestors(c);
                    vf_add("pentagon_base_zero_tail.cells", 1);
                }
    /* all 136 (res, childRes) pairs: every pentagon, cells that left a pentagon chain, random hexagons */
    for (int res = 0; res <= 15; res++)
        for (int cr = res; cr <= 15; cr++) {
            for (int k = 0; k < 12; k++) {
                if (!VF_MINE(idx++)) continue;
                H3Index p = vf_make_cell(res, REF_PENT_BC[k], (int[15]){0});
                case_size_only(p, cr);
                if (res >= 1) {
                    int dg[15] = {0};
                    dg[vf_below(&r, (uint64_t)res)] = 2 + (int)vf_below(&r, 5);
                    case_size_only(vf_make_cell(res, REF_PENT_BC[k], dg), cr);
                }
            }
            for (int i = 0; i < VF_T(6, 40); i++)
                if (VF_MINE(idx++)) case_size_only(vf_rand_cell(&r, res), cr);
        }
    phase_jump(&r, &idx);
    int nh = VF_T(1500, 20000);
    for (int i = 0; i < nh; i++) {
        int res = (int)vf_below(&r, 16);
        H3Index h = vf_rand_cell(&r, res);
        int cr = res + (int)vf_below(&r, 4);
        if (cr > 15) cr = 15;
        case_children(h, cr);
        case_ancestors(h);
        case_errors(h, &r);
    }
    /* deep descendants: random cells at res 15 / 12 with long ancestor chains */
    int nd = VF_T(3000, 40000);
    for (int i = 0; i < nd; i++) case_ancestors(vf_rand_cell(&r, 10 + (int)vf_below(&r, 6)));
}
static void replay(const char *spec) {
    uint64_t h;
    int x;
    vf_rng r;
    vf_rng_seed(&r, 1);
    if (sscanf(spec, "children %" SCNx64 " %d", &h, &x) == 2)
        case_children(h, x);
    else if (sscanf(spec, "size %" SCNx64 " %d", &h, &x) == 2)
        case_size_only(h, x);
    else if (sscanf(spec, "jump %" SCNx64 " %d %" SCNu64 " %d", &h, &x, &(uint64_t){0}, &(int){0}) == 4) {
        uint64_t pos;
        int st;
        sscanf(spec, "jump %" SCNx64 " %d %" SCNu64 " %d", &h, &x, &pos, &st);
        g_jump_ok = jump_calibrate(&r);
        if (g_jump_ok) case_jump(h, x, pos, st);
        else vf_add("jump.skipped_iterator_not_observable", 1);
    } else if (sscanf(spec, "ancestors %" SCNx64, &h) == 1)
        case_ancestors(h);
    else if (sscanf(spec, "errors %" SCNx64 " %d", &h, &x) == 2)
        for (int i = 0; i < 50; i++) case_errors(h, &r);
    else
        vf_fatal("bad replay spec: %s", spec);
}
int main(int argc, char **argv) { return vf_main(argc, argv, "C04", run, replay); }
