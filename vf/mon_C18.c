/* mon_C18 — the library is re-entrant: concurrent calls equal sequential calls
 * (DESIGN.md §5 C18).
 *
 * One deterministic "mixed program" (indexing, traversal incl. pentagon
 * fallbacks, hierarchy, compaction, both polygon fills, multipolygon, edges,
 * vertexes, strings, error descriptions) is executed under four monitors:
 *   wtrap    library loaded as a shared object, its writable PT_LOAD segment is
 *            mprotect'ed read-only while the programs run: any store into
 *            library-owned static memory faults (schedule independent);
 *   ledger   allocator ledger: no library allocation outlives the API call that
 *            made it (except the multipolygon result until destroy...);
 *   tsan     2/4/8/16 threads under ThreadSanitizer with random yields between
 *            calls; per-thread output hashes compared with a sequential run;
 *   threads  the same comparison at higher volume without the race detector.
 */
#include "vf.h"

#include <dlfcn.h>
#include <errno.h>
#include <fenv.h>
#include <link.h>
#include <locale.h>
#include <pthread.h>
#include <sched.h>
#include <signal.h>
#include <stdatomic.h>
#include <sys/mman.h>
#include <time.h>
#include <unistd.h>

enum {
    A_latLngToCell, A_cellToLatLng, A_cellToBoundary, A_gridDisk, A_gridDiskDistances, A_gridRingUnsafe, A_gridPathCells, A_gridDistance, A_hierarchy,
    A_compactCells, A_uncompactCells, A_polygonToCells, A_polygonToCellsExperimental, A_cellsToLinkedMultiPolygon, A_directedEdges, A_vertexes, A_strings,
    A_describeH3Error, A_getIcosahedronFaces, A_cellArea, A_localIj, A_areNeighborCells, A_getPentagons, A_childPos, A_N
};
static const char *ANAME[A_N] = {"latLngToCell", "cellToLatLng", "cellToBoundary", "gridDisk", "gridDiskDistances", "gridRingUnsafe", "gridPathCells", "gridDistance", "hierarchy",
                                 "compactCells", "uncompactCells", "polygonToCells", "polygonToCellsExperimental", "cellsToLinkedMultiPolygon", "directedEdges", "vertexes", "strings",
                                 "describeH3Error", "getIcosahedronFaces", "cellArea", "localIj", "areNeighborCells", "getPentagons", "childPos"};

/* ---- per-thread state (thread-owned; merged by the main thread after join) */
#define MAXT 16
typedef struct {
    vf_rng r;  /* drives the program: identical in concurrent and sequential runs */
    vf_rng yr; /* drives the scheduling noise only */
    uint64_t hash;
    int64_t calls[A_N];
    int64_t overlap[A_N][A_N]; /* [my api][api another thread was inside at my call entry] */
    int tid, nthreads, yield;
    int64_t ledger_bad;
    char ledger_msg[160];
    int64_t fe_bad;
    char fe_msg[160];
} prog_t;
static _Atomic int cur_api[MAXT]; /* which API each thread is inside (-1 = none); relaxed atomics: the monitor is not the race */

static void mixh(prog_t *t, const void *p, size_t n) {
    const unsigned char *b = p;
    uint64_t h = t->hash;
    for (size_t i = 0; i < n; i++) h = (h ^ b[i]) * 1099511628211ULL;
    t->hash = h;
}
static void enter(prog_t *t, int api) {
    t->calls[api]++;
    if (t->nthreads > 1) {
        atomic_store_explicit(&cur_api[t->tid], api, memory_order_relaxed);
        for (int o = 0; o < t->nthreads; o++) {
            if (o == t->tid) continue;
            int x = atomic_load_explicit(&cur_api[o], memory_order_relaxed);
            if (x >= 0) t->overlap[api][x]++;
        }
    }
}
static void leave(prog_t *t, int api, int allow_live) {
    (void)api;
    if (t->nthreads > 1) atomic_store_explicit(&cur_api[t->tid], -1, memory_order_relaxed);
#ifdef VF_ALLOC
    if (t->nthreads == 1 && !allow_live && (VFA.live != 0 || VFA.double_free)) {
        if (!t->ledger_bad) snprintf(t->ledger_msg, sizeof t->ledger_msg, "%ld library block(s) still allocated (%ld bad frees) when %s returned", VFA.live, VFA.double_free, ANAME[api]);
        t->ledger_bad++;
        vfa_reset();
    }
#else
    (void)allow_live;
#endif
    if (t->yield && vf_below(&t->yr, 5) == 0) {
        if (vf_below(&t->yr, 4)) sched_yield();
        else {
            struct timespec ts = {0, 1000 * (long)(1 + vf_below(&t->yr, 40))};
            nanosleep(&ts, NULL);
        }
    }
}
/* ---- libc functions that keep hidden process-wide state: a library call that reaches one of them is not re-entrant even
 * though it writes none of its own static memory (the write-trap cannot see libc's).  The monitor executable defines them, so
 * the library's calls resolve here first; each use from inside an API call is recorded, then forwarded to libc. */
#ifndef __SANITIZE_THREAD__
static _Atomic long nonreentrant_calls;
static _Thread_local int in_api_call;
static char nonreentrant_first[64];
static void note_nonreentrant(const char *name) {
    if (!in_api_call) return; /* the harness itself may use them freely */
    if (atomic_fetch_add(&nonreentrant_calls, 1) == 0) snprintf(nonreentrant_first, sizeof nonreentrant_first, "%s", name);
}
#define FORWARD(ret, name, params, args) \
    ret name params { \
        static ret(*real) params; \
        if (!real) *(void **)&real = dlsym(RTLD_NEXT, #name); \
        note_nonreentrant(#name); \
        return real args; \
    }
FORWARD(char *, strtok, (char *a, const char *b), (a, b))
FORWARD(int, rand, (void), ())
FORWARD(long, random, (void), ())
FORWARD(double, drand48, (void), ())
FORWARD(long, lrand48, (void), ())
FORWARD(struct tm *, localtime, (const time_t *t), (t))
FORWARD(struct tm *, gmtime, (const time_t *t), (t))
FORWARD(char *, ctime, (const time_t *t), (t))
FORWARD(char *, asctime, (const struct tm *t), (t))
FORWARD(char *, setlocale, (int c, const char *l), (c, l))
FORWARD(char *, strerror, (int e), (e))
FORWARD(char *, tmpnam, (char *b), (b))
void srand(unsigned s) {
    static void (*real)(unsigned);
    if (!real) *(void **)&real = dlsym(RTLD_NEXT, "srand");
    note_nonreentrant("srand");
    real(s);
}
#define API_ENTER() (in_api_call = 1)
#define API_LEAVE() (in_api_call = 0)
static void report_nonreentrant(void) {
    long n = atomic_load(&nonreentrant_calls);
    vf_add("libc_hidden_state.calls_from_api", n);
    if (n)
        vf_violation("non-reentrant-libc", nonreentrant_first, vf_mix((uint64_t)nonreentrant_first[0] * 131 + (uint64_t)nonreentrant_first[1]), "",
                     "%ld call(s) from inside API calls to libc functions with hidden process-wide state (first: %s)", n, nonreentrant_first);
}
#else
#define API_ENTER() ((void)0)
#define API_LEAVE() ((void)0)
static void report_nonreentrant(void) {}
#endif

/* The floating-point environment is per-thread state that is neither a static of the library nor of libc: a call that returns
 * with another rounding mode than it was entered with changes the result of every later call on that thread (and makes the
 * concurrent and the sequential execution of the same program differ).  Checked around every API call; the mode is put back so
 * that one leak is one report, not an avalanche. */
static void fe_check(prog_t *t, int api, int before) {
    int after = fegetround();
    if (after != before) {
        if (!t->fe_bad) snprintf(t->fe_msg, sizeof t->fe_msg, "%s returned with floating-point rounding mode %d, it was entered with %d", ANAME[api], after, before);
        t->fe_bad++;
        fesetround(before);
    }
}
#define API(id, stmt) do { enter(t, id); API_ENTER(); int fe0_ = fegetround(); stmt; fe_check(t, id, fe0_); API_LEAVE(); leave(t, id, 0); } while (0)

/* one step of the mixed program: everything lives on this thread's stack / heap */
static void step(prog_t *t) {
    vf_rng *r = &t->r;
    int res = (int)vf_below(r, 13);
    LatLng g = vf_rand_ll(r);
    H3Index h = 0;
    H3Error e;
    if (vf_below(r, 5) == 0) {
        H3Index p[12];
        API(A_getPentagons, e = getPentagons(res, p));
        h = p[vf_below(r, 12)];
        if (vf_below(r, 2)) { /* next to the pentagon: fallback paths of the disk functions */
            H3Index d[7] = {0};
            API(A_gridDisk, e = gridDisk(h, 1, d));
            H3Index x = d[1 + vf_below(r, 6)];
            if (x) h = x;
        }
    } else
        API(A_latLngToCell, e = latLngToCell(&g, res, &h));
    mixh(t, &h, 8);
    LatLng c = {0, 0};
    API(A_cellToLatLng, e = cellToLatLng(h, &c));
    mixh(t, &c, sizeof c);
    CellBoundary cb;
    memset(&cb, 0, sizeof cb);
    API(A_cellToBoundary, e = cellToBoundary(h, &cb));
    mixh(t, &cb.numVerts, 4);
    mixh(t, cb.verts, sizeof(LatLng) * (size_t)cb.numVerts);
    int k = 1 + (int)vf_below(r, 4);
    H3Index d[61] = {0};
    int ds[61] = {0};
    API(A_gridDiskDistances, e = gridDiskDistances(h, k, d, ds));
    mixh(t, d, sizeof d);
    mixh(t, ds, sizeof ds);
    H3Index ring[24] = {0};
    API(A_gridRingUnsafe, e = gridRingUnsafe(h, k, ring));
    mixh(t, &e, 4);
    if (!e) mixh(t, ring, 8 * 6 * (size_t)k);
    H3Index far = d[vf_below(r, 3 * (uint64_t)k * ((uint64_t)k + 1) + 1)];
    if (far) {
        int64_t dist = -1, psz = 0;
        API(A_gridDistance, e = gridDistance(h, far, &dist));
        mixh(t, &dist, 8);
        API(A_gridPathCells, e = gridPathCellsSize(h, far, &psz));
        if (!e && psz > 0 && psz < 64) {
            H3Index path[64] = {0};
            API(A_gridPathCells, e = gridPathCells(h, far, path));
            mixh(t, path, 8 * (size_t)psz);
        }
        CoordIJ ij = {0, 0};
        API(A_localIj, e = cellToLocalIj(h, far, 0, &ij));
        if (!e) {
            H3Index back = 0;
            API(A_localIj, e = localIjToCell(h, &ij, 0, &back));
            mixh(t, &back, 8);
        }
        int nb = -1;
        API(A_areNeighborCells, e = areNeighborCells(h, far, &nb));
        mixh(t, &nb, 4);
    }
    char buf[17];
    H3Index h2 = 0;
    API(A_strings, e = h3ToString(h, buf, sizeof buf));
    API(A_strings, e = stringToH3(buf, &h2));
    mixh(t, &h2, 8);
    {
        /* errno is per-thread state of the C library that survives between calls: the same parse with ERANGE left behind by some
         * earlier call (here: set by hand) must give the same answer; tried on the cell's own text and, now and then, on the
         * largest value */
        const char *txt = vf_below(r, 16) ? buf : "ffffffffffffffff";
        H3Index a0 = 0, a1 = 0;
        H3Error e0, e1;
        errno = 0;
        API(A_strings, e0 = stringToH3(txt, &a0));
        errno = ERANGE;
        API(A_strings, e1 = stringToH3(txt, &a1));
        errno = 0;
        if (e0 != e1 || a0 != a1) {
            if (!t->fe_bad) snprintf(t->fe_msg, sizeof t->fe_msg, "stringToH3(\"%s\") gives rc=%u with errno clear and rc=%u with errno = ERANGE on entry", txt, e0, e1);
            t->fe_bad++;
        }
    }
    const char *es;
    API(A_describeH3Error, es = describeH3Error((H3Error)vf_below(r, 18)));
    mixh(t, es, strlen(es));
    H3Index v6[6] = {0}, e6[6] = {0};
    API(A_vertexes, e = cellToVertexes(h, v6));
    mixh(t, v6, sizeof v6);
    if (v6[0]) {
        LatLng vg;
        API(A_vertexes, e = vertexToLatLng(v6[0], &vg));
        mixh(t, &vg, sizeof vg);
    }
    API(A_directedEdges, e = originToDirectedEdges(h, e6));
    mixh(t, e6, sizeof e6);
    if (e6[2]) {
        CellBoundary eb;
        memset(&eb, 0, sizeof eb);
        double len = 0;
        API(A_directedEdges, e = directedEdgeToBoundary(e6[2], &eb));
        mixh(t, eb.verts, sizeof(LatLng) * (size_t)eb.numVerts);
        API(A_directedEdges, e = edgeLengthRads(e6[2], &len));
        mixh(t, &len, 8);
    }
    double area = 0;
    API(A_cellArea, e = cellAreaRads2(h, &area));
    mixh(t, &area, 8);
    int faces[5] = {-2, -2, -2, -2, -2};
    API(A_getIcosahedronFaces, e = getIcosahedronFaces(h, faces));
    mixh(t, faces, sizeof faces);
    if (res > 0) {
        H3Index p = 0, ch[49] = {0}, out[49] = {0}, un[49] = {0};
        int pr = res - 1 - (res > 1 && vf_below(r, 2));
        int64_t n = 0, pos = -1;
        API(A_hierarchy, e = cellToParent(h, pr, &p));
        API(A_hierarchy, e = cellToChildrenSize(p, res, &n));
        if (!e && n <= 49) {
            API(A_hierarchy, e = cellToChildren(p, res, ch));
            API(A_compactCells, e = compactCells(ch, out, n));
            mixh(t, &e, 4);
            H3Index one[1] = {p};
            API(A_uncompactCells, e = uncompactCells(one, 1, un, n, res));
            mixh(t, un, 8 * (size_t)n);
        }
        API(A_childPos, e = cellToChildPos(h, pr, &pos));
        mixh(t, &pos, 8);
        H3Index back = 0;
        API(A_childPos, e = childPosToCell(pos, p, res, &back));
        mixh(t, &back, 8);
    }
    if (vf_below(r, 8) == 0 && fabs(c.lat) < 1.3 && fabs(c.lng) < 3.0) {
        double w = 0.9 / pow(2.6457, res) * (0.3 + vf_unit(r));
        LatLng pv[5] = {{c.lat - w, c.lng - w}, {c.lat - w, c.lng + w}, {c.lat + 0.2 * w, c.lng + 1.3 * w}, {c.lat + w, c.lng + w}, {c.lat + w, c.lng - w}};
        LatLng hv[3] = {{c.lat - 0.2 * w, c.lng - 0.2 * w}, {c.lat - 0.2 * w, c.lng + 0.2 * w}, {c.lat + 0.2 * w, c.lng}};
        GeoLoop hole = {3, hv};
        GeoPolygon gp = {{5, pv}, (int)vf_below(r, 2), &hole};
        int64_t sz = 0;
        uint32_t mode = (uint32_t)vf_below(r, 4);
        if (vf_below(r, 4) == 0) {
            /* finite but out-of-range coordinates (a latitude beyond a pole, a longitude a turn away, a flag or resolution
             * out of range): the argument-checking and clamping paths of the size functions run under the write-trap and the
             * race detector too; only the size functions are called for these */
            LatLng save = pv[2];
            int badres = res;
            uint32_t badmode = mode;
            switch (vf_below(r, 7)) {
                case 5: /* degenerate: every vertex on one parallel (bounding box of zero height) */
                    for (int i = 0; i < 5; i++) pv[i].lat = c.lat;
                    break;
                case 6: /* degenerate: every vertex on one meridian (zero width), or fewer than three vertices */
                    if (vf_below(r, 2))
                        for (int i = 0; i < 5; i++) pv[i].lng = c.lng;
                    else gp.geoloop.numVerts = (int)vf_below(r, 3);
                    break;
                case 0: pv[2].lat = (c.lat >= 0 ? 1 : -1) * (M_PI_2 + 0.01 + 0.3 * vf_unit(r)); break;
                case 1: pv[2].lng += (vf_below(r, 2) ? 1 : -1) * 2 * M_PI; break;
                case 2: pv[2].lat = 1e6 * (vf_unit(r) - 0.5); break;
                case 3: badres = vf_below(r, 2) ? -1 : 16; break;
                default: badmode = 4 + (uint32_t)vf_below(r, 9);
            }
            int64_t z = 0;
            API(A_polygonToCellsExperimental, e = maxPolygonToCellsSizeExperimental(&gp, badres, badmode, &z));
            mixh(t, &e, 4);
            API(A_polygonToCells, e = maxPolygonToCellsSize(&gp, badres, 0, &z));
            mixh(t, &e, 4);
            pv[2] = save;
            (void)save;
            { /* undo the degenerate shapes */
                LatLng pv0[5] = {{c.lat - w, c.lng - w}, {c.lat - w, c.lng + w}, {c.lat + 0.2 * w, c.lng + 1.3 * w}, {c.lat + w, c.lng + w}, {c.lat + w, c.lng - w}};
                memcpy(pv, pv0, sizeof pv0);
                gp.geoloop.numVerts = 5;
            }
        }
        API(A_polygonToCellsExperimental, e = maxPolygonToCellsSizeExperimental(&gp, res, mode, &sz));
        if (!e && sz < 20000) {
            H3Index *o = calloc((size_t)sz + 1, 8);
            API(A_polygonToCellsExperimental, e = polygonToCellsExperimental(&gp, res, mode, sz, o));
            mixh(t, o, 8 * (size_t)sz);
            free(o);
        }
        API(A_polygonToCells, e = maxPolygonToCellsSize(&gp, res, 0, &sz));
        if (!e && sz < 20000) {
            H3Index *o = calloc((size_t)sz + 1, 8);
            API(A_polygonToCells, e = polygonToCells(&gp, res, 0, o));
            mixh(t, o, 8 * (size_t)sz);
            free(o);
        }
        H3Index set[19];
        int m = 0;
        for (int i = 0; i < 19; i++)
            if (d[i] && (i % 5 || vf_below(r, 2))) set[m++] = d[i];
        if (m) {
            LinkedGeoPolygon lp;
            memset(&lp, 0, sizeof lp);
            enter(t, A_cellsToLinkedMultiPolygon);
            e = cellsToLinkedMultiPolygon(set, m, &lp);
            leave(t, A_cellsToLinkedMultiPolygon, e == 0); /* on success the result owns memory until destroy */
            if (!e) {
                for (LinkedGeoPolygon *q = &lp; q; q = q->next)
                    for (LinkedGeoLoop *l = q->first; l; l = l->next)
                        for (LinkedLatLng *x = l->first; x; x = x->next) mixh(t, &x->vertex, sizeof(LatLng));
                API(A_cellsToLinkedMultiPolygon, destroyLinkedMultiPolygon(&lp));
            }
        }
    }
}
static void prog_init(prog_t *t, uint64_t seed, int tid, int nthreads, int yield) {
    memset(t, 0, sizeof *t);
    vf_rng_seed(&t->r, seed);
    vf_rng_seed(&t->yr, seed ^ 0x5CEDULL);
    t->hash = 1469598103934665603ULL;
    t->tid = tid;
    t->nthreads = nthreads;
    t->yield = yield;
}
static int STEPS;
static void *thread_main(void *a) {
    prog_t *t = a;
    for (int i = 0; i < STEPS; i++) step(t);
    return NULL;
}
static void account(const prog_t *t, int with_overlap) {
    char nm[96];
    vf_add("fp_environment.api_returns_checked", 0);
    for (int a = 0; a < A_N; a++) vf_add("fp_environment.api_returns_checked", t->calls[a]);
    if (t->fe_bad) vf_violation("thread-environment", "library", vf_mix((uint64_t)t->fe_msg[0] * 131 + (uint64_t)t->fe_msg[5]) ^ 0xFE, "", "%s (%" PRId64 " such returns in one program)", t->fe_msg, t->fe_bad);
    for (int a = 0; a < A_N; a++) {
        snprintf(nm, sizeof nm, "calls.%s", ANAME[a]);
        vf_add(nm, t->calls[a]);
        vf_add("api_calls", t->calls[a]);
    }
    if (with_overlap) {
        int64_t pairs = 0;
        for (int a = 0; a < A_N; a++)
            for (int b = 0; b < A_N; b++)
                if (t->overlap[a][b]) {
                    pairs++;
                    vf_add("overlap.observations", t->overlap[a][b]);
                    snprintf(nm, sizeof nm, "overlap.pair.%02d_%02d", a, b);
                    vf_add(nm, t->overlap[a][b]);
                }
        (void)pairs;
    }
}

/* ---------------------------------------------------------------- concurrent phases */
static void run_threads(int yield, int rounds, int steps) {
    STEPS = steps;
    static const int TN[4] = {2, 4, 8, 16};
    for (int round = 0; round < rounds; round++)
        for (int c = 0; c < 4; c++) {
            int T = TN[c];
            static prog_t con[MAXT], seq[MAXT];
            pthread_t th[MAXT];
            uint64_t base = vf_mix(VF.seed * 7919 + (uint64_t)VF.shard * 104729 + (uint64_t)round * 31 + (uint64_t)c);
            vf_case("threads %d round %d seed %016" PRIx64 " steps %d yield %d", T, round, base, steps, yield);
            for (int i = 0; i < MAXT; i++) atomic_store(&cur_api[i], -1);
            for (int i = 0; i < T; i++) prog_init(&con[i], vf_mix(base + (uint64_t)i), i, T, yield);
            for (int i = 0; i < T; i++)
                if (pthread_create(&th[i], NULL, thread_main, &con[i])) vf_fatal("pthread_create");
            for (int i = 0; i < T; i++) pthread_join(th[i], NULL);
            /* the same programs one after another */
            for (int i = 0; i < T; i++) {
                prog_init(&seq[i], vf_mix(base + (uint64_t)i), 0, 1, 0);
                thread_main(&seq[i]);
                vf_add("programs", 1);
                if (seq[i].hash != con[i].hash)
                    vf_violation("differs-from-sequential", "mixed-program", vf_mix(base + (uint64_t)i), "", "thread %d of %d: outputs hash %016" PRIx64 " when run concurrently, %016" PRIx64 " sequentially (program seed %016" PRIx64 ", %d steps)", i, T,
                                 con[i].hash, seq[i].hash, vf_mix(base + (uint64_t)i), steps);
                account(&con[i], 1);
                vf_distinct(vf_mix(base + (uint64_t)i) ^ (uint64_t)T);
            }
            char nm[32];
            snprintf(nm, sizeof nm, "runs.threads_%02d", T);
            vf_add(nm, 1);
        }
    vf_sample("2/4/8/16 threads x %d rounds x %d steps of the mixed program; every per-thread output hash equals the sequential run", rounds, steps);
}

/* ---------------------------------------------------------------- write trap */
static uintptr_t seg_lo, seg_hi;
static char libpath[512];
static uintptr_t lib_base;
static int phdr_cb(struct dl_phdr_info *info, size_t sz, void *d) {
    (void)sz;
    (void)d;
    if (!info->dlpi_name || !strstr(info->dlpi_name, "libh3vf")) return 0;
    snprintf(libpath, sizeof libpath, "%s", info->dlpi_name);
    for (int i = 0; i < info->dlpi_phnum; i++) {
        const ElfW(Phdr) *p = &info->dlpi_phdr[i];
        if (p->p_type == PT_LOAD && (p->p_flags & PF_W)) {
            lib_base = info->dlpi_addr;
            seg_lo = info->dlpi_addr + p->p_vaddr;
            seg_hi = seg_lo + p->p_memsz;
        }
    }
    return 0;
}
static void on_segv(int s, siginfo_t *si, void *u) {
    (void)s;
    (void)u;
    uintptr_t a = (uintptr_t)si->si_addr;
    char buf[700];
    Dl_info di;
    const char *sym = "?";
    if (a >= seg_lo && a < seg_hi && dladdr(si->si_addr, &di) && di.dli_sname) sym = di.dli_sname;
    int n = snprintf(buf, sizeof buf,
                     "{\"t\":\"viol\",\"property\":\"C18\",\"kind\":\"%s\",\"fn\":\"%s\",\"key\":\"%016" PRIx64 "\",\"sigs\":\"\",\"replay\":\"%.200s\",\"detail\":\"store to address %p %s the library's writable segment [%#lx,%#lx) (offset %#lx, vaddr %#lx in the shared object, nearest dynamic symbol %s) while the segment was write-protected: the library writes to its own static memory\"}\n",
                     (a >= seg_lo && a < seg_hi) ? "static-write" : "segv", sym, vf_mix(a - seg_lo), vf_case_get(), si->si_addr, (a >= seg_lo && a < seg_hi) ? "inside" : "outside", (unsigned long)seg_lo,
                     (unsigned long)seg_hi, (unsigned long)(a - seg_lo), (unsigned long)(a - lib_base), sym);
    if (VF.log) {
        fflush(VF.log);
        if (write(fileno(VF.log), buf, (size_t)n) < 0) _exit(4);
    }
    _exit(3);
}
static void run_wtrap(void) {
    dl_iterate_phdr(phdr_cb, NULL);
    if (!seg_lo) vf_fatal("libh3vf writable segment not found (phase wtrap needs the shared-library configuration)");
    long pg = sysconf(_SC_PAGESIZE);
    uintptr_t a = seg_lo & ~(uintptr_t)(pg - 1), b = (seg_hi + (uintptr_t)pg - 1) & ~(uintptr_t)(pg - 1);
    size_t len = seg_hi - seg_lo;
    unsigned char *snap = malloc(len);
    memcpy(snap, (void *)seg_lo, len);
    struct sigaction sa;
    memset(&sa, 0, sizeof sa);
    sa.sa_sigaction = on_segv;
    sa.sa_flags = SA_SIGINFO;
    sigaction(SIGSEGV, &sa, NULL);
    /* warm up libc/libm lazily-initialised state outside the protected window (none of it is in the segment, but keep the window clean) */
    prog_t w;
    prog_init(&w, 1, 0, 1, 0);
    STEPS = 50;
    thread_main(&w);
    if (mprotect((void *)a, b - a, PROT_READ)) vf_fatal("mprotect");
    int progs = VF_T(40, 400);
    STEPS = VF_T(400, 1500);
    for (int i = 0; i < progs; i++) {
        prog_t t;
        uint64_t seed = vf_mix(VF.seed * 1315423911ULL + (uint64_t)VF.shard * 2654435761ULL + (uint64_t)i);
        vf_case("wtrap program %016" PRIx64 " steps %d", seed, STEPS);
        prog_init(&t, seed, 0, 1, 0);
        thread_main(&t);
        account(&t, 0);
        vf_add("programs", 1);
        vf_distinct(seed);
    }
    /* also with threads inside the protected window */
    {
        prog_t con[4];
        pthread_t th[4];
        STEPS = VF_T(200, 800);
        for (int i = 0; i < 4; i++) prog_init(&con[i], vf_mix(VF.seed + 99 + (uint64_t)i + (uint64_t)VF.shard * 7), i, 4, 1);
        for (int i = 0; i < 4; i++) pthread_create(&th[i], NULL, thread_main, &con[i]);
        for (int i = 0; i < 4; i++) pthread_join(th[i], NULL);
        for (int i = 0; i < 4; i++) account(&con[i], 0);
        vf_add("programs", 4);
    }
    if (mprotect((void *)a, b - a, PROT_READ | PROT_WRITE)) vf_fatal("mprotect back");
    vf_add("wtrap.segment_bytes", (int64_t)len);
    vf_add("wtrap.protected_runs", 1);
    if (memcmp(snap, (void *)seg_lo, len)) vf_violation("static-changed", "library", 1, "", "the library's writable segment (%zu bytes) changed during the workload", len);
    vf_sample("library %s: writable segment %zu bytes write-protected during %d programs x %d steps: no store trapped, bytes identical afterwards", libpath, len, progs, STEPS);
    free(snap);
}

/* ---------------------------------------------------------------- ledger */
static void run_ledger(void) {
#ifdef VF_ALLOC
    int progs = VF_T(30, 300);
    STEPS = VF_T(400, 1500);
    for (int i = 0; i < progs; i++) {
        prog_t t;
        uint64_t seed = vf_mix(VF.seed * 2246822519ULL + (uint64_t)VF.shard * 3266489917ULL + (uint64_t)i);
        vf_case("ledger program %016" PRIx64 " steps %d", seed, STEPS);
        vfa_reset();
        prog_init(&t, seed, 0, 1, 0);
        thread_main(&t);
        account(&t, 0);
        vf_add("programs", 1);
        vf_add("ledger.api_returns_checked", 0);
        for (int a = 0; a < A_N; a++) vf_add("ledger.api_returns_checked", t.calls[a]);
        if (t.ledger_bad) vf_violation("retained-allocation", "library", vf_mix(seed), "", "%s (%" PRId64 " such returns in program %016" PRIx64 ")", t.ledger_msg, t.ledger_bad, seed);
        if (VFA.live != 0) vf_violation("retained-allocation", "library", vf_mix(seed) ^ 1, "", "%ld block(s) live at the end of program %016" PRIx64, VFA.live, seed);
        vf_distinct(seed);
    }
    vf_sample("allocator ledger empty at every one of the API returns of %d programs x %d steps", progs, STEPS);
#else
    vf_fatal("phase ledger needs the allocator ledger (config asan-alloc)");
#endif
}

static void run(void) {
    vf_watchdog(0, 0); /* threads: process CPU time is not per case here; the driver's phase timeout is the (inconclusive) backstop */
    if (!strcmp(VF.phase, "wtrap")) run_wtrap();
    else if (!strcmp(VF.phase, "ledger")) run_ledger();
    else if (!strcmp(VF.phase, "tsan")) run_threads(1, VF_T(1, 4), VF_T(150, 500));
    else run_threads(1, VF_T(2, 10), VF_T(600, 2000));
    report_nonreentrant();
}
static void replay(const char *spec) {
    (void)spec;
    /* schedules are not replayable; re-run the phase that reported */
    run();
}
int main(int argc, char **argv) { return vf_main(argc, argv, "C18", run, replay); }
