/* mon_C13 — cellToChildPos / childPosToCell are inverse bijections in child
 * order (DESIGN.md §5 C13).  Oracle: ref_child_rank / ref_child_unrank, digit
 * arithmetic on the documented layout. */
#include "vf.h"

static int64_t ipow7(int n) {
    int64_t r = 1;
    while (n-- > 0) r *= 7;
    return r;
}

static void case_pos(H3Index p, int cres, int64_t pos) {
    vf_case("pos %016" PRIx64 " %d %" PRId64, p, cres, pos);
    uint64_t key = vf_mix(p) ^ vf_mix((uint64_t)cres * 31 + 5) ^ vf_mix((uint64_t)pos);
    int pres = VF_RES(p);
    int64_t n = ref_children_count(p, cres);
    if (!VF_GUARD()) {
        vf_assert_report("childPosToCell", key);
        VF_UNGUARD();
        return;
    }
    H3Index c = 0;
    H3Error e = childPosToCell(pos, p, cres, &c);
    vf_add("pos.calls", 1);
    if (pos < 0 || pos >= n) {
        vf_add("pos.out_of_range", 1);
        if (e != E_DOMAIN) vf_violation("wrong-code", "childPosToCell", key, "", "position %" PRId64 " of %" PRId64 " children: rc=%u expected E_DOMAIN(2)", pos, n, e);
        VF_UNGUARD();
        vf_distinct(key);
        return;
    }
    uint64_t want = ref_child_unrank(p, cres, pos);
    if (e || c != want) {
        vf_violation("unrank", "childPosToCell", key, "", "childPosToCell(%" PRId64 ", %016" PRIx64 ", %d) rc=%u -> %016" PRIx64 ", reference %016" PRIx64, pos, p,
                     cres, e, c, want);
        VF_UNGUARD();
        return;
    }
    vf_out_cell("childPosToCell", c, cres);
    int64_t back = -7;
    e = cellToChildPos(c, pres, &back);
    if (e || back != pos)
        vf_violation("inverse", "cellToChildPos", key, "", "cellToChildPos(%016" PRIx64 ", %d) rc=%u -> %" PRId64 ", expected %" PRId64, c, pres, e, back, pos);
    VF_UNGUARD();
    if (n > 1) vf_distinct(key);
    vf_sample("childPosToCell(%" PRId64 ", %016" PRIx64 ", %d) = %016" PRIx64 " ; back = %" PRId64, pos, p, cres, c, back);
}

static void case_rank(H3Index c, int pres) {
    vf_case("rank %016" PRIx64 " %d", c, pres);
    uint64_t key = vf_mix(c ^ 0x13) ^ vf_mix((uint64_t)pres + 99);
    if (!VF_GUARD()) {
        vf_assert_report("cellToChildPos", key);
        VF_UNGUARD();
        return;
    }
    int64_t pos = -7, want = ref_child_rank(c, pres);
    H3Error e = cellToChildPos(c, pres, &pos);
    vf_add("rank.calls", 1);
    if (e || pos != want) {
        vf_violation("rank", "cellToChildPos", key, "", "cellToChildPos(%016" PRIx64 ", %d) rc=%u -> %" PRId64 ", reference %" PRId64, c, pres, e, pos, want);
    } else {
        H3Index back = 0;
        e = childPosToCell(pos, ref_parent(c, pres), VF_RES(c), &back);
        if (e || back != c) vf_violation("inverse", "childPosToCell", key, "", "childPosToCell(%" PRId64 ") of parent rc=%u -> %016" PRIx64 " expected %016" PRIx64, pos, e, back, c);
    }
    VF_UNGUARD();
    if (VF_RES(c) > pres) vf_distinct(key);
}

/* position i is the i-th element of cellToChildren */
static void case_list(H3Index p, int cres) {
    vf_case("list %016" PRIx64 " %d", p, cres);
    uint64_t key = vf_mix(p ^ 0x1157) ^ vf_mix((uint64_t)cres);
    int64_t n;
    if (!VF_GUARD()) {
        vf_assert_report("childPosToCell", key);
        VF_UNGUARD();
        return;
    }
    if (cellToChildrenSize(p, cres, &n) || n != ref_children_count(p, cres)) {
        vf_violation("size", "cellToChildrenSize", key, "", "size mismatch");
        VF_UNGUARD();
        return;
    }
    H3Index *ch = vf_buf_new((size_t)n * 8, 0);
    if (cellToChildren(p, cres, ch))
        vf_violation("error", "cellToChildren", key, "", "failed");
    else
        for (int64_t i = 0; i < n; i++) {
            H3Index c = 0;
            int64_t pos = -1;
            if (childPosToCell(i, p, cres, &c) || c != ch[i] || cellToChildPos(ch[i], VF_RES(p), &pos) || pos != i) {
                vf_violation("list", "childPosToCell", key, "", "position %" PRId64 ": childPosToCell -> %016" PRIx64 ", cellToChildren[%" PRId64 "] = %016" PRIx64 ", cellToChildPos -> %" PRId64, i, c,
                             i, ch[i], pos);
                break;
            }
        }
    vf_add("list.cases", 1);
    vf_add("list.positions", n);
    VF_UNGUARD();
    vf_buf_free(ch);
    if (n > 1) vf_distinct(key);
}

static void case_errors(H3Index p, vf_rng *r) {
    int pres = VF_RES(p);
    uint64_t key = vf_mix(p ^ 0xE13);
    for (int t = 0; t < 6; t++) {
        int x = vf_hostile_int(r);
        vf_case("errors %016" PRIx64 " %d", p, x);
        if (!VF_GUARD()) {
            vf_assert_report("childPosToCell", key);
            VF_UNGUARD();
            return;
        }
        H3Index o = 0;
        int64_t pos = 0;
        H3Error e = childPosToCell(0, p, x, &o);
        H3Error want = (x < 0 || x > 15) ? E_RES_DOMAIN : x < pres ? E_RES_MISMATCH : E_SUCCESS;
        if (e != want) vf_violation("wrong-code", "childPosToCell", key ^ (uint64_t)x, "", "childPosToCell(0, res-%d parent, childRes %d) rc=%u expected %u", pres, x, e, want);
        e = cellToChildPos(p, x, &pos);
        want = (x < 0 || x > 15) ? E_RES_DOMAIN : x > pres ? E_RES_MISMATCH : E_SUCCESS;
        if (e != want) vf_violation("wrong-code", "cellToChildPos", key ^ (uint64_t)x, "", "cellToChildPos(res-%d cell, parentRes %d) rc=%u expected %u", pres, x, e, want);
        VF_UNGUARD();
        vf_add("errors.calls", 2);
        if (want) vf_add("errors.rejected", 1);
    }
}

static void positions(H3Index p, int cres, vf_rng *r, int nrand) {
    int64_t n = ref_children_count(p, cres);
    int depth = cres - VF_RES(p);
    int64_t fixed[] = {0, 1, 2, n - 1, n - 2, n, n + 1, -1, -2, INT64_MAX, INT64_MIN, INT64_MAX - 1, n / 2};
    for (unsigned i = 0; i < sizeof fixed / sizeof fixed[0]; i++) case_pos(p, cres, fixed[i]);
    /* boundaries of the pentagon / hexagon offset formulas at each level */
    for (int L = 0; L <= depth; L++) {
        int64_t pw = 1 + 5 * (ipow7(L) - 1) / 6, hw = ipow7(L);
        for (int m = 0; m <= 6; m++)
            for (int dlt = -1; dlt <= 1; dlt++) {
                int64_t a = pw + m * hw + dlt, b = m * hw + dlt;
                if (a >= -1 && a <= n) case_pos(p, cres, a);
                if (b >= -1 && b <= n) case_pos(p, cres, b);
            }
    }
    for (int i = 0; i < nrand; i++) case_pos(p, cres, (int64_t)vf_below(r, (uint64_t)n));
}

static void run(void) {
    vf_rng r;
    vf_rng_stream(&r, 13);
    int64_t idx = 0;
    int nrand = VF_T(20, 400);
    /* every pentagon parent at res 0..15 x every child res; children leaving the chain */
    for (int pres = 0; pres <= 15; pres++)
        for (int k = 0; k < 12; k++) {
            H3Index p = vf_make_cell(pres, REF_PENT_BC[k], (int[15]){0});
            for (int cres = pres; cres <= 15; cres++) {
                if (!VF_MINE(idx++)) continue;
                positions(p, cres, &r, nrand);
                if (ref_children_count(p, cres) <= VF_T(2801, 19608 * 7)) case_list(p, cres);
                /* a descendant that leaves the pentagon chain at each level, ranked under every ancestor */
                for (int L = pres + 1; L <= cres; L++) {
                    H3Index c = vf_set_res(p, cres);
                    for (int q = pres + 1; q <= cres; q++) c = vf_set_digit(c, q, q < L ? 0 : q == L ? 2 + (int)vf_below(&r, 5) : (int)vf_below(&r, 7));
                    for (int a = 0; a <= cres; a += (cres > 6 ? 2 : 1)) case_rank(c, a);
                    case_rank(c, pres);
                }
            }
            if (VF_MINE(idx++)) case_errors(p, &r);
        }
    /* hexagon parents of all resolutions */
    int nh = VF_T(600, 10000);
    for (int i = 0; i < nh; i++) {
        int pres = (int)vf_below(&r, 16);
        H3Index p = vf_rand_cell(&r, pres);
        int cres = pres + (int)vf_below(&r, (uint64_t)(16 - pres));
        positions(p, cres, &r, 4);
        if (cres - pres <= VF_T(3, 5)) case_list(p, cres);
        case_errors(p, &r);
        H3Index c = vf_rand_cell(&r, cres);
        for (int a = 0; a <= cres; a++) case_rank(c, a);
    }
}
static void replay(const char *spec) {
    uint64_t h;
    int x;
    int64_t pos;
    vf_rng r;
    vf_rng_seed(&r, 1);
    if (sscanf(spec, "pos %" SCNx64 " %d %" SCNd64, &h, &x, &pos) == 3)
        case_pos(h, x, pos);
    else if (sscanf(spec, "rank %" SCNx64 " %d", &h, &x) == 2)
        case_rank(h, x);
    else if (sscanf(spec, "list %" SCNx64 " %d", &h, &x) == 2)
        case_list(h, x);
    else if (sscanf(spec, "errors %" SCNx64 " %d", &h, &x) == 2)
        for (int i = 0; i < 50; i++) case_errors(h, &r);
    else
        vf_fatal("bad replay spec: %s", spec);
}
int main(int argc, char **argv) { return vf_main(argc, argv, "C13", run, replay); }
