/* mon_C06 — compactCells / uncompactCells are lossless, canonical and
 * order-independent (DESIGN.md §5 C06).
 * Oracle: reference compaction computed bottom-up on the sorted input set
 * (complete sibling groups by the reference child count); the canonical result
 * is unique, so compactCells must return exactly that set for every ordering. */
#include "vf.h"

static int cmp_u64(const void *a, const void *b) {
    uint64_t x = *(const uint64_t *)a, y = *(const uint64_t *)b;
    return x < y ? -1 : x > y;
}
typedef struct {
    H3Index *a;
    int64_t n, cap;
} vec;
static void push(vec *v, H3Index h) {
    if (v->n == v->cap) {
        v->cap = v->cap ? v->cap * 2 : 256;
        v->a = realloc(v->a, (size_t)v->cap * 8);
        if (!v->a) vf_fatal("oom");
    }
    v->a[v->n++] = h;
}
static void sort_unique(vec *v) {
    if (v->n > 1) qsort(v->a, (size_t)v->n, 8, cmp_u64);
    int64_t m = 0;
    for (int64_t i = 0; i < v->n; i++)
        if (i == 0 || v->a[i] != v->a[i - 1]) v->a[m++] = v->a[i];
    v->n = m;
}
/* reference compaction of a sorted, duplicate-free, single-resolution set */
static void ref_compact(const vec *S, int res, vec *out) {
    vec cur = {0}, next = {0};
    for (int64_t i = 0; i < S->n; i++) push(&cur, S->a[i]);
    for (int r = res; r >= 0; r--) {
        next.n = 0;
        if (r == 0) {
            for (int64_t i = 0; i < cur.n; i++) push(out, cur.a[i]);
            break;
        }
        int64_t i = 0;
        while (i < cur.n) {
            H3Index p = ref_parent(cur.a[i], r - 1);
            int64_t j = i;
            while (j < cur.n && ref_parent(cur.a[j], r - 1) == p) j++;
            if (j - i == ref_children_count(p, r))
                push(&next, p);
            else
                for (int64_t k = i; k < j; k++) push(out, cur.a[k]);
            i = j;
        }
        vec t = cur;
        cur = next;
        next = t;
    }
    free(cur.a);
    free(next.a);
    qsort(out->a, (size_t)out->n, 8, cmp_u64);
}
static void add_children(vec *v, H3Index p, int res) {
    ref_child_iter it;
    for (ref_child_iter_init(&it, p, res); !it.done; ref_child_iter_next(&it)) push(v, it.h);
}
/* build one input set from a seed */
static int build_set(uint64_t seed, vec *S, int *res_out, char *desc, size_t dlen) {
    vf_rng r;
    vf_rng_seed(&r, seed);
    int res = 1 + (int)vf_below(&r, 15);
    int big = vf_below(&r, VF.thorough ? 12 : 40) == 0;
    int nparts = 1 + (int)vf_below(&r, 6);
    int o = snprintf(desc, dlen, "res %d:", res);
    for (int part = 0; part < nparts; part++) {
        int kind = (int)vf_below(&r, 7);
        int maxd = big ? 6 : 4;
        if (maxd > res) maxd = res;
        switch (kind) {
            case 0:
            case 1: { /* complete sub-tree of depth 1..maxd (pentagon-rooted half of the time for kind 1) */
                int d = 1 + (int)vf_below(&r, (uint64_t)maxd);
                H3Index p = kind ? vf_make_cell(res - d, REF_PENT_BC[vf_below(&r, 12)], (int[15]){0}) : vf_rand_cell(&r, res - d);
                if (kind && res - d >= 1 && vf_below(&r, 2)) {
                    /* a hexagon on a pentagon base cell that left the pentagon's centre chain early and has only zero digits
                     * since: the cell on which "is the start of the iteration a pentagon?" short-cuts go wrong */
                    int dg[15] = {0};
                    dg[vf_below(&r, (uint64_t)(res - d > 3 ? 3 : res - d))] = 2 + (int)vf_below(&r, 5);
                    p = vf_make_cell(res - d, REF_PENT_BC[vf_below(&r, 12)], dg);
                }
                add_children(S, p, res);
                o += snprintf(desc + o, dlen - (size_t)o, " subtree(%016" PRIx64 ")", p);
                break;
            }
            case 2: { /* partial sibling group: drop 1..3 children */
                H3Index p = vf_rand_cell(&r, res - 1);
                if (vf_below(&r, 3) == 0) p = vf_make_cell(res - 1, REF_PENT_BC[vf_below(&r, 12)], (int[15]){0});
                int64_t n0 = S->n;
                add_children(S, p, res);
                int drop = 1 + (int)vf_below(&r, 3);
                for (int k = 0; k < drop && S->n > n0 + 1; k++) {
                    int64_t q = n0 + (int64_t)vf_below(&r, (uint64_t)(S->n - n0));
                    S->a[q] = S->a[--S->n];
                }
                o += snprintf(desc + o, dlen - (size_t)o, " partial(%016" PRIx64 ",-%d)", p, drop);
                break;
            }
            case 3: { /* deep sub-tree with one leaf removed: partial groups at every level */
                int d = 2 + (int)vf_below(&r, (uint64_t)(maxd > 2 ? maxd - 1 : 1));
                if (d > res) d = res;
                H3Index p = vf_rand_cell(&r, res - d);
                int64_t n0 = S->n;
                add_children(S, p, res);
                int64_t q = n0 + (int64_t)vf_below(&r, (uint64_t)(S->n - n0));
                S->a[q] = S->a[--S->n];
                o += snprintf(desc + o, dlen - (size_t)o, " holed(%016" PRIx64 ")", p);
                break;
            }
            case 4: { /* isolated cells */
                int n = 1 + (int)vf_below(&r, 20);
                for (int k = 0; k < n; k++) push(S, vf_rand_cell(&r, res));
                o += snprintf(desc + o, dlen - (size_t)o, " isolated(%d)", n);
                break;
            }
            case 5: { /* whole disk */
                int k = 1 + (int)vf_below(&r, big ? 60 : 12);
                int64_t sz;
                maxGridDiskSize(k, &sz);
                H3Index c = vf_below(&r, 3) ? vf_rand_cell(&r, res) : vf_make_cell(res, REF_PENT_BC[vf_below(&r, 12)], (int[15]){0});
                H3Index *d = calloc((size_t)sz, 8);
                if (!gridDisk(c, k, d))
                    for (int64_t i = 0; i < sz; i++)
                        if (d[i]) push(S, d[i]);
                free(d);
                o += snprintf(desc + o, dlen - (size_t)o, " disk(%016" PRIx64 ",%d)", c, k);
                break;
            }
            default: { /* several sibling sub-trees under one grandparent: multi-round compaction */
                int d = 2 + (int)vf_below(&r, 2);
                if (d > res) d = res;
                H3Index gp = vf_rand_cell(&r, res - d);
                ref_child_iter it;
                int keep = 3 + (int)vf_below(&r, 5);
                int c = 0;
                for (ref_child_iter_init(&it, gp, res - d + 1); !it.done && c < keep; ref_child_iter_next(&it), c++) add_children(S, it.h, res);
                o += snprintf(desc + o, dlen - (size_t)o, " family(%016" PRIx64 ",%d)", gp, keep);
            }
        }
        if (o > (int)dlen - 64) break;
    }
    sort_unique(S);
    *res_out = res;
    return S->n > 0;
}

static void permute(vec *S, int how, vf_rng *r) {
    int64_t n = S->n;
    switch (how) {
        case 0: break; /* sorted */
        case 1:
            for (int64_t i = 0; i < n / 2; i++) {
                H3Index t = S->a[i];
                S->a[i] = S->a[n - 1 - i];
                S->a[n - 1 - i] = t;
            }
            break;
        case 2: { /* rotation: hash chains wrap */
            int64_t k = (int64_t)vf_below(r, (uint64_t)n);
            H3Index *t = malloc((size_t)n * 8);
            for (int64_t i = 0; i < n; i++) t[i] = S->a[(i + k) % n];
            memcpy(S->a, t, (size_t)n * 8);
            free(t);
            break;
        }
        default:
            for (int64_t i = n - 1; i > 0; i--) {
                int64_t j = (int64_t)vf_below(r, (uint64_t)i + 1);
                H3Index t = S->a[i];
                S->a[i] = S->a[j];
                S->a[j] = t;
            }
    }
}

static void case_set(uint64_t seed) {
    vf_case("set %016" PRIx64, seed);
    vec S = {0}, canon = {0};
    int res;
    char desc[600];
    if (!build_set(seed, &S, &res, desc, sizeof desc)) {
        free(S.a);
        return;
    }
    ref_compact(&S, res, &canon);
    vec sorted = {0};
    for (int64_t i = 0; i < S.n; i++) push(&sorted, S.a[i]);
    vf_rng r;
    vf_rng_seed(&r, seed ^ 0xABCDEF);
    uint64_t key = vf_mix(seed);
    int norders = VF_T(4, 6);
    if (!VF_GUARD()) {
        vf_assert_report("compactCells", key);
        VF_UNGUARD();
        goto done;
    }
    for (int ord = 0; ord < norders; ord++) {
        memcpy(S.a, sorted.a, (size_t)S.n * 8);
        permute(&S, ord, &r);
        H3Index *in = vf_buf_new((size_t)S.n * 8, 0);
        memcpy(in, S.a, (size_t)S.n * 8);
        H3Index *out = vf_buf_new((size_t)S.n * 8, 0);
        H3Error e = compactCells(in, out, S.n);
        vf_add("compact.calls", 1);
        vf_add("compact.cells_in", S.n);
        if (vf_buf_check(out) || vf_buf_check(in)) vf_violation("overrun", "compactCells", key, "", "canary damaged (n=%" PRId64 ")", S.n);
        if (memcmp(in, S.a, (size_t)S.n * 8)) vf_violation("input-modified", "compactCells", key, "", "input array modified");
        if (e) {
            vf_violation("error", "compactCells", key ^ (uint64_t)ord, "", "ordering %d of %" PRId64 " distinct cells (%s): rc=%u", ord, S.n, desc, e);
        } else {
            vec got = {0};
            for (int64_t i = 0; i < S.n; i++)
                if (out[i]) push(&got, out[i]);
            qsort(got.a, (size_t)got.n, 8, cmp_u64);
            int same = got.n == canon.n && !memcmp(got.a, canon.a, (size_t)got.n * 8);
            if (!same) {
                /* structural diagnosis for the message */
                const char *why = "differs from the canonical compaction";
                for (int64_t i = 0; i < got.n; i++) {
                    if (!ref_is_valid_cell(got.a[i]) || VF_RES(got.a[i]) > res) why = "contains an invalid or too fine cell";
                    if (i && got.a[i] == got.a[i - 1]) why = "contains a duplicate";
                }
                vf_violation("not-canonical", "compactCells", key ^ (uint64_t)ord, "", "ordering %d of %" PRId64 " cells (%s): output of %" PRId64 " cells %s (%" PRId64 " cells)", ord, S.n, desc, got.n, why, canon.n);
            }
            for (int64_t i = 0; i < got.n && i < 16; i++) vf_out_cell("compactCells", got.a[i], -1);
            /* lossless: uncompact gives exactly S */
            int64_t usz = -1;
            H3Index *cin = vf_buf_new((size_t)got.n * 8, 0);
            memcpy(cin, got.a, (size_t)got.n * 8);
            e = uncompactCellsSize(cin, got.n, res, &usz);
            if (e || usz != S.n)
                vf_violation("size", "uncompactCellsSize", key ^ (uint64_t)ord, "", "rc=%u size=%" PRId64 " expected %" PRId64 " (%s)", e, usz, S.n, desc);
            else if (same || ord == 0) {
                H3Index *un = vf_buf_new((size_t)S.n * 8, 0);
                e = uncompactCells(cin, got.n, un, S.n, res);
                if (vf_buf_check(un)) vf_violation("overrun", "uncompactCells", key, "", "canary damaged");
                if (e)
                    vf_violation("error", "uncompactCells", key ^ (uint64_t)ord, "", "rc=%u with exact capacity (%s)", e, desc);
                else {
                    qsort(un, (size_t)S.n, 8, cmp_u64);
                    if (memcmp(un, sorted.a, (size_t)S.n * 8))
                        vf_violation("lossy", "uncompactCells", key ^ (uint64_t)ord, "", "uncompactCells(compactCells(S)) != S for %" PRId64 " cells (%s)", S.n, desc);
                    for (int64_t i = 0; i < S.n && i < 16; i++) vf_out_cell("uncompactCells", un[i], res);
                }
                vf_buf_free(un);
                vf_add("uncompact.calls", 1);
                /* capacity one short */
                if (S.n >= 1 && ord == 0) {
                    H3Index *sm = vf_buf_new((size_t)(S.n - 1) * 8, 0);
                    e = uncompactCells(cin, got.n, sm, S.n - 1, res);
                    vf_add("uncompact.short_capacity", 1);
                    if (e != E_MEMORY_BOUNDS) vf_violation("wrong-code", "uncompactCells", key ^ 0x77, "", "capacity %" PRId64 " for %" PRId64 " cells: rc=%u expected E_MEMORY_BOUNDS(14)", S.n - 1, S.n, e);
                    if (vf_buf_check(sm)) vf_violation("overrun", "uncompactCells", key ^ 0x78, "", "wrote beyond a capacity of %" PRId64, S.n - 1);
                    vf_buf_free(sm);
                }
                /* target resolution coarser than an input */
                if (ord == 0) {
                    int finest = 0;
                    for (int64_t i = 0; i < got.n; i++)
                        if (VF_RES(got.a[i]) > finest) finest = VF_RES(got.a[i]);
                    if (finest > 0) {
                        int tr = (int)vf_below(&r, (uint64_t)finest);
                        int64_t z = -1;
                        H3Index *un2 = vf_buf_new((size_t)S.n * 8, 0);
                        H3Error e1 = uncompactCellsSize(cin, got.n, tr, &z), e2 = uncompactCells(cin, got.n, un2, S.n, tr);
                        vf_add("uncompact.coarser_target", 1);
                        if (e1 != E_RES_MISMATCH || e2 != E_RES_MISMATCH)
                            vf_violation("wrong-code", "uncompactCells", key ^ 0x79, "", "target res %d coarser than an input of res %d: rc size=%u cells=%u expected E_RES_MISMATCH(12)", tr, finest, e1, e2);
                        vf_buf_free(un2);
                    }
                }
            }
            vf_buf_free(cin);
            free(got.a);
        }
        vf_buf_free(in);
        vf_buf_free(out);
    }
    VF_UNGUARD();
    if (canon.n < S.n) {
        vf_distinct(key);
        vf_add("sets.compactable", 1);
    }
    vf_add("sets", 1);
    vf_maxd("largest_set", (double)S.n);
    vf_sample("set %016" PRIx64 " (%s): %" PRId64 " cells -> canonical %" PRId64 ", identical for %d orderings, uncompact lossless", seed, desc, S.n, canon.n, norders);
done:
    free(S.a);
    free(canon.a);
    free(sorted.a);
}

/* |S| beyond what can be materialised: a canonical compact set G (a few cells of mixed coarse resolutions, pentagons included,
 * no ancestor pairs, no complete sibling group) is the compaction of S = all descendants of G at resolution r, so the statement's
 * "uncompactCellsSize equal to |S|" is checkable for |S| up to 7^15 against the closed-form child counts (128-bit arithmetic),
 * and uncompactCells with a capacity that cannot hold S must answer E_MEMORY_BOUNDS without touching more than it was given. */
static void case_deep_size(uint64_t seed) {
    vf_rng r;
    vf_rng_seed(&r, seed);
    vf_case("deep %016" PRIx64, seed);
    int n = 1 + (int)vf_below(&r, 6);
    H3Index g[8];
    int m = 0, finest = 0;
    for (int i = 0; i < n; i++) {
        int res = (int)vf_below(&r, 8);
        H3Index c = vf_below(&r, 3) ? vf_rand_cell(&r, res) : vf_make_cell(res, REF_PENT_BC[vf_below(&r, 12)], (int[15]){0});
        int ok = 1;
        for (int j = 0; j < m && ok; j++) { /* keep the set canonical: no ancestor/descendant pairs, no equal cells */
            int rj = VF_RES(g[j]), lo = rj < res ? rj : res;
            if (ref_parent(g[j], lo) == ref_parent(c, lo)) ok = 0;
        }
        if (!ok) continue;
        g[m++] = c;
        if (res > finest) finest = res;
    }
    /* a complete sibling group cannot arise: at most 6 cells, and 7 (or 6 under a pentagon: then all six must be siblings, which
     * the ancestor test does not exclude) — drop the last cell if all remaining cells share one parent */
    if (m >= 6) m = 5;
    if (!m) return;
    for (int target = finest; target <= 15; target++) {
        u128 want = 0;
        for (int j = 0; j < m; j++) want += (u128)ref_children_count(g[j], target);
        int64_t got = -1;
        H3Index *cin = vf_buf_new((size_t)m * 8, 0);
        memcpy(cin, g, (size_t)m * 8);
        H3Error e = uncompactCellsSize(cin, m, target, &got);
        vf_add("deepsize.calls", 1);
        if (e || (u128)got != want)
            vf_violation("size", "uncompactCellsSize", seed ^ (uint64_t)target, "", "%d canonical cells (first %016" PRIx64 ", finest res %d) at target res %d: rc=%u size=%" PRId64 ", the descendants number %" PRId64, m, g[0], finest,
                         target, e, got, (int64_t)want);
        if (want > 4096) {
            /* capacity far too small for |S|: must be refused, nothing written beyond the capacity */
            int64_t cap = (int64_t)vf_below(&r, 64);
            H3Index *out = vf_buf_new((size_t)cap * 8, 0);
            e = uncompactCells(cin, m, out, cap, target);
            if (e != E_MEMORY_BOUNDS) vf_violation("wrong-code", "uncompactCells", seed ^ 0x91 ^ (uint64_t)target, "", "capacity %" PRId64 " for %" PRId64 " descendants: rc=%u expected E_MEMORY_BOUNDS(14)", cap, (int64_t)want, e);
            if (vf_buf_check(out)) vf_violation("overrun", "uncompactCells", seed ^ 0x92, "", "wrote beyond a capacity of %" PRId64, cap);
            vf_buf_free(out);
            vf_add("deepsize.short_capacity", 1);
        }
        vf_buf_free(cin);
    }
    vf_distinct(seed);
}

static void run(void) {
    vf_rng r;
    vf_rng_stream(&r, 6);
    int n = VF_T(1200, 12000);
    for (int i = 0; i < n; i++) case_set(vf_u64(&r));
    int nd = VF_T(800, 8000);
    for (int i = 0; i < nd; i++) case_deep_size(vf_u64(&r));
    /* very large sets: whole base cells at res 5-6 and large disks (up to ~1e5 cells) */
    int nbig = VF_T(1, 6);
    for (int i = 0; i < nbig; i++) case_set(0xB16000000ULL + (uint64_t)VF.shard * 100 + (uint64_t)i + VF.seed * 100000);
}
static void replay(const char *spec) {
    uint64_t seed;
    if (sscanf(spec, "set %" SCNx64, &seed) == 1)
        case_set(seed);
    else if (sscanf(spec, "deep %" SCNx64, &seed) == 1)
        case_deep_size(seed);
    else
        vf_fatal("bad replay spec: %s", spec);
}
int main(int argc, char **argv) { return vf_main(argc, argv, "C06", run, replay); }
