/* mon_C03 — cell <-> centre bijection, complete enumeration, counts
 * (DESIGN.md §5 C03).  Cells come from the reference enumerator (digit
 * counting on the documented layout), not from a library iterator. */
#include "vf.h"

static int64_t n_rt, n_pert;

/* A result must not depend on what the library was asked before.  Every 16th round trip is preceded by an unrelated call
 * on the same cell that walks the same internal helpers from another entry point (local IJ, distance, boundary, vertexes,
 * parent/child, faces); a memo or scratch state left behind by it would change the centre computed next. */
static void unrelated_call_first(H3Index h) {
    int64_t d;
    CoordIJ ij;
    CellBoundary cb;
    H3Index o, vs[6];
    int faces[5];
    switch ((n_rt >> 4) % 7) {
        case 0: gridDistance(h, h, &d); break;
        case 1: cellToLocalIj(h, h, 0, &ij); break;
        case 2: cellToBoundary(h, &cb); break;
        case 3: cellToVertexes(h, vs); break;
        case 4: cellToParent(h, VF_RES(h) ? VF_RES(h) - 1 : 0, &o); cellToCenterChild(h, VF_RES(h) < 15 ? VF_RES(h) + 1 : 15, &o); break;
        case 5: getIcosahedronFaces(h, faces); break;
        default: {
            H3Index ring[7] = {0};
            gridDisk(h, 1, ring);
            if (ring[1]) gridDistance(ring[1], h, &d);
        }
    }
}
static void roundtrip(H3Index h) {
    LatLng g;
    H3Index back = 0;
    int res = VF_RES(h);
    if ((n_rt & 15) == 0) unrelated_call_first(h);
    H3Error e = cellToLatLng(h, &g);
    n_rt++;
    if (e) {
        char spec[64];
        snprintf(spec, sizeof spec, "rt %016" PRIx64, h);
        vf_violation_spec(spec, "error", "cellToLatLng", h, "", "cellToLatLng(%016" PRIx64 ") rc=%u on a valid cell", h, e);
        return;
    }
    e = latLngToCell(&g, res, &back);
    if (e || back != h) {
        char spec[64];
        snprintf(spec, sizeof spec, "rt %016" PRIx64, h);
        vf_violation_spec(spec, "roundtrip", "latLngToCell", h, "", "centre (%.17g, %.17g) of %016" PRIx64 " maps to %016" PRIx64 " (rc=%u) at res %d", g.lat, g.lng, h,
                          back, e, res);
    }
    if (!(fabs(g.lat) <= M_PI_2 && fabs(g.lng) <= M_PI))
        vf_violation("range", "cellToLatLng", h, "", "centre (%.17g, %.17g) out of range", g.lat, g.lng);
}
/* the cell and its 45 single-digit perturbations: library predicate == reference */
static void perturb(H3Index h) {
    for (int r = 1; r <= 15; r++)
        for (int d = 1; d <= 3; d++) {
            uint64_t x = vf_set_digit(h, r, (VF_DIGIT(h, r) + d * 3 - 1) & 7);
            n_pert++;
            if ((isValidCell(x) != 0) != ref_is_valid_cell(x)) {
                char spec[64];
                snprintf(spec, sizeof spec, "valid %016" PRIx64, x);
                vf_violation_spec(spec, "predicate", "isValidCell", x, "", "isValidCell(%016" PRIx64 ")=%d reference=%d", x, isValidCell(x), ref_is_valid_cell(x));
            }
        }
    if (!isValidCell(h)) vf_violation("predicate", "isValidCell", h, "", "enumerated cell %016" PRIx64 " rejected", h);
    if ((isPentagon(h) != 0) != ref_is_pentagon(h)) vf_violation("pentagon", "isPentagon", h, "", "isPentagon(%016" PRIx64 ")=%d reference=%d", h, isPentagon(h), ref_is_pentagon(h));
}
static int64_t total_count, pent_count;
static void on_cell(uint64_t h, int64_t idx, void *u) {
    (void)u;
    total_count++;
    if (ref_is_pentagon(h)) pent_count++;
    if (!VF_MINE(idx)) return;
    roundtrip(h);
    perturb(h);
    vf_distinct(h);
}
static void on_cell_rt_only(uint64_t h, int64_t idx, void *u) {
    (void)u;
    total_count++;
    if (!VF_MINE(idx)) return;
    roundtrip(h);
    if ((idx & 1023) == 0) vf_distinct(h);
}
static int cmp_u64(const void *a, const void *b) {
    uint64_t x = *(const uint64_t *)a, y = *(const uint64_t *)b;
    return x < y ? -1 : x > y;
}
static void counts(void) {
    /* closed forms in 128-bit, library counters, library lists */
    for (int res = 0; res <= 15; res++) {
        vf_case("counts %d", res);
        u128 want = 2;
        u128 p7 = 1;
        for (int i = 0; i < res; i++) p7 *= 7;
        want += 120 * p7;
        int64_t n = -1;
        H3Error e = getNumCells(res, &n);
        if (e || n < 0 || (u128)n != want || n != ref_num_cells(res))
            vf_violation("count", "getNumCells", (uint64_t)res, "", "getNumCells(%d) rc=%u -> %" PRId64 ", closed form 2+120*7^r = %" PRId64, res, e, n, ref_num_cells(res));
        H3Index p[12] = {0};
        e = getPentagons(res, p);
        if (e) vf_violation("error", "getPentagons", (uint64_t)res, "", "rc=%u", e);
        qsort(p, 12, 8, cmp_u64);
        for (int k = 0; k < 12; k++) {
            uint64_t w = vf_make_cell(res, REF_PENT_BC[k], (int[15]){0});
            if (p[k] != w) vf_violation("pentagons", "getPentagons", (uint64_t)res * 16 + (uint64_t)k, "", "res %d: sorted slot %d is %016" PRIx64 ", reference pentagon %016" PRIx64, res, k, p[k], w);
            if (!e) vf_out_cell("getPentagons", p[k], res);
            if (!isPentagon(w)) vf_violation("pentagon", "isPentagon", w, "", "reference pentagon %016" PRIx64 " not recognised", w);
        }
        vf_add("counts.res_checked", 1);
    }
    for (int t = 0; t < 40; t++) {
        static const int bad[] = {-1, 16, 17, -2147483647 - 1, 2147483647, 100, -16, 32};
        int x = bad[t % 8];
        int64_t n;
        H3Index p[12];
        if (getNumCells(x, &n) != E_RES_DOMAIN) vf_violation("wrong-code", "getNumCells", (uint64_t)(uint32_t)x, "", "res %d accepted", x);
        if (getPentagons(x, p) != E_RES_DOMAIN) vf_violation("wrong-code", "getPentagons", (uint64_t)(uint32_t)x, "", "res %d accepted", x);
    }
    if (res0CellCount() != 122) vf_violation("count", "res0CellCount", 0, "", "res0CellCount()=%d", res0CellCount());
    if (pentagonCount() != 12) vf_violation("count", "pentagonCount", 0, "", "pentagonCount()=%d", pentagonCount());
    H3Index *r0 = vf_buf_new(122 * 8, 0);
    if (getRes0Cells(r0)) vf_violation("error", "getRes0Cells", 0, "", "failed");
    qsort(r0, 122, 8, cmp_u64);
    for (int b = 0; b < 122; b++) {
        uint64_t w = vf_make_cell(0, b, (int[15]){0});
        if (r0[b] != w) vf_violation("res0", "getRes0Cells", (uint64_t)b, "", "sorted slot %d is %016" PRIx64 " expected %016" PRIx64, b, r0[b], w);
        vf_out_cell("getRes0Cells", r0[b], 0);
    }
    vf_buf_free(r0);
}

static void run(void) {
    vf_rng r;
    vf_rng_stream(&r, 3);
    if (!strcmp(VF.phase, "san")) {
        /* sanitised: counts, special neighbourhoods at all 16 resolutions, stratified random cells */
        if (VF.shard == 0) counts();
        H3Index seeds[600];
        int64_t idx = 0, sz;
        maxGridDiskSize(6, &sz);
        H3Index *d = vf_buf_new((size_t)sz * 8, 0);
        for (int res = 0; res <= 15; res++) {
            int n = vf_special_seeds(res, VF_T(6, 16), seeds, 600);
            for (int i = 0; i < n; i++) {
                if (!VF_MINE(idx++)) continue;
                int k = i < 12 ? 6 : 2;
                memset(d, 0, (size_t)sz * 8);
                vf_case("nbhd %016" PRIx64 " %d", seeds[i], k);
                if (gridDisk(seeds[i], k, d)) continue;
                for (int64_t j = 0; j < sz; j++)
                    if (d[j]) {
                        roundtrip(d[j]);
                        perturb(d[j]);
                        vf_distinct(d[j]);
                        vf_add("special.cells", 1);
                    }
            }
            /* face-assignment slivers along the icosahedron edges */
            {
                H3Index es[4000];
                int ne = vf_edge_offset_seeds(res, es, 4000);
                for (int i = 0; i < ne; i++) {
                    if (!VF_MINE(idx++)) continue;
                    H3Index d1[7] = {0};
                    vf_case("nbhd %016" PRIx64 " 1", es[i]);
                    if (gridDisk(es[i], 1, d1)) continue;
                    for (int j = 0; j < 7; j++)
                        if (d1[j]) {
                            roundtrip(d1[j]);
                            vf_distinct(d1[j]);
                            vf_add("edge_sliver.cells", 1);
                        }
                }
            }
            int nr = VF_T(4000, 60000);
            for (int i = 0; i < nr; i++) {
                H3Index h = vf_rand_cell(&r, res);
                vf_case("rt %016" PRIx64, h);
                roundtrip(h);
                perturb(h);
                vf_distinct(h);
            }
            vf_add("random.cells", nr);
        }
        vf_buf_free(d);
        /* sparse-digit cells: at every resolution, under every pentagon base cell and six hexagon base cells, every cell
         * with exactly one and exactly two non-zero digits (every position, every digit value). These are the cells on
         * which run-skipping / word-at-a-time rewrites of the digit helpers (leading non-zero digit, isPentagon,
         * isValidCell masks) go wrong: long zero runs before, between and after the digits. "Exactly twelve pentagons per
         * resolution" is judged on them through isPentagon == reference. */
        {
            static const int hexbc[6] = {0, 15, 50, 62, 100, 121};
            int bcs[18], nb = 0;
            for (int bc = 0; bc < 122; bc++)
                if (ref_is_pent_bc(bc)) bcs[nb++] = bc;
            for (int i = 0; i < 6; i++) bcs[nb++] = hexbc[i];
            int dg[15];
            for (int b = 0; b < nb; b++)
                for (int res = 1; res <= 15; res++)
                    for (int p = 1; p <= res; p++)
                        for (int q = p; q <= res; q++)
                            for (int d1 = 1; d1 <= 6; d1++)
                                for (int d2 = 1; d2 <= (q == p ? 1 : 6); d2++) {
                                    if (!VF_MINE(idx++)) continue;
                                    memset(dg, 0, sizeof dg);
                                    dg[p - 1] = d1;
                                    if (q != p) dg[q - 1] = d2;
                                    H3Index h = vf_make_cell(res, bcs[b], dg);
                                    if (!ref_is_valid_cell(h)) { /* leading 1 under a pentagon: must be rejected */
                                        vf_add("sparse.deleted_subsequence_indexes", 1);
                                        if (isValidCell(h)) {
                                            char spec[64];
                                            snprintf(spec, sizeof spec, "valid %016" PRIx64, h);
                                            vf_violation_spec(spec, "predicate", "isValidCell", h, "", "isValidCell(%016" PRIx64 ")=1 reference=0", h);
                                        }
                                        continue;
                                    }
                                    vf_case("rt %016" PRIx64, h);
                                    roundtrip(h);
                                    perturb(h);
                                    if ((idx & 7) == 0) vf_distinct(h);
                                    vf_add("sparse.cells", 1);
                                }
        }
        /* the far tips of the base cells' footprints: (d1, d, d, ..., d) for every base cell, first digit and repeated digit, res 2-15 */
        for (int res = 2; res <= 15; res++)
            for (int bc = 0; bc < 122; bc++)
                for (int d1 = 0; d1 <= 6; d1++)
                    for (int dd = 1; dd <= 6; dd++) {
                        if (!VF_MINE(idx++)) continue;
                        int dg[15];
                        for (int i = 0; i < res; i++) dg[i] = dd;
                        dg[0] = d1;
                        H3Index h = vf_make_cell(res, bc, dg);
                        if (!ref_is_valid_cell(h)) continue;
                        vf_case("rt %016" PRIx64, h);
                        roundtrip(h);
                        if ((idx & 15) == 0) vf_distinct(h);
                        vf_add("footprint_tip.cells", 1);
                    }
    } else {
        /* whole resolutions */
        int full = VF_T(5, 6), rtonly = VF_T(5, 7);
        for (int res = 0; res <= rtonly; res++) {
            vf_case("enum %d", res);
            total_count = pent_count = 0;
            ref_enum_res(res, 0, res <= full ? on_cell : on_cell_rt_only, NULL);
            int64_t n = -1;
            getNumCells(res, &n);
            if (total_count != n || total_count != ref_num_cells(res))
                vf_violation("count", "getNumCells", (uint64_t)res, "", "res %d: enumerated %" PRId64 " spec-valid cells, getNumCells=%" PRId64, res, total_count, n);
            if (res <= full && pent_count != 12) vf_violation("count", "isPentagon", (uint64_t)res, "", "res %d: %" PRId64 " pentagons enumerated", res, pent_count);
            if (VF.shard == 0) {
                char nm[64];
                snprintf(nm, sizeof nm, "enumerated.res%02d", res);
                vf_add(nm, total_count);
                vf_add("whole_resolutions", 1);
            }
        }
    }
    vf_add("roundtrips", n_rt);
    vf_add("perturbations", n_pert);
    vf_sample("latLngToCell(cellToLatLng(085283473fffffff)) round trip checked; %" PRId64 " round trips in this worker", n_rt);
}
static void replay(const char *spec) {
    uint64_t h;
    int k;
    if (sscanf(spec, "rt %" SCNx64, &h) == 1) {
        roundtrip(h);
        perturb(h);
    } else if (sscanf(spec, "valid %" SCNx64, &h) == 1) {
        perturb(vf_set_digit(h, 1, VF_DIGIT(h, 1)));
        if ((isValidCell(h) != 0) != ref_is_valid_cell(h)) vf_violation("predicate", "isValidCell", h, "", "isValidCell(%016" PRIx64 ") differs from reference", h);
    } else if (sscanf(spec, "nbhd %" SCNx64 " %d", &h, &k) == 2) {
        int64_t sz;
        maxGridDiskSize(k, &sz);
        H3Index *d = calloc((size_t)sz, 8);
        gridDisk(h, k, d);
        for (int64_t j = 0; j < sz; j++)
            if (d[j]) {
                roundtrip(d[j]);
                perturb(d[j]);
            }
    } else if (!strncmp(spec, "counts", 6) || !strncmp(spec, "enum", 4)) {
        counts();
    } else
        vf_fatal("bad replay spec: %s", spec);
    vf_add("roundtrips", n_rt);
}
int main(int argc, char **argv) { return vf_main(argc, argv, "C03", run, replay); }
