/* vf.h — shared kit of the runtime monitors (see DESIGN.md §3).
 *
 * Everything in here is written from the H3 documentation (bit layout, counts)
 * or from plain spherical geometry; nothing includes a private header of the
 * library, so a change to a library table cannot leak into an oracle.
 */
#ifndef VF_H
#define VF_H
#ifndef _GNU_SOURCE
#define _GNU_SOURCE
#endif
#include <inttypes.h>
#include <math.h>
#include <setjmp.h>
#include <stdarg.h>
#include <stdint.h>
#include <stdio.h>
#include <stdlib.h>
#include <string.h>

#include "h3api.h"

typedef unsigned __int128 u128;
typedef long double ld;
#define VF_PI 3.141592653589793238462643383279502884L

/* ------------------------------------------------------------------ context */
typedef struct {
    int thorough;        /* 0 quick, 1 thorough */
    uint64_t seed;       /* VERIF_SEED */
    int shard, nshards;  /* this worker / number of workers */
    const char *prop;    /* property id */
    const char *phase;   /* phase name given by the driver ("" if none) */
    const char *aux;     /* path of the auxiliary shared library (second copy of h3), or NULL */
    FILE *log;           /* event log (JSON lines) */
    char *slot;          /* 4 KiB supervisor slot (mmap) or private buffer */
    long nviol;          /* violations reported by this worker */
} vf_ctx_t;
extern vf_ctx_t VF;

/* run(): the whole workload; replay(spec): one case from a replay spec. */
int vf_main(int argc, char **argv, const char *prop, void (*run)(void),
            void (*replay)(const char *spec));

#define VF_MINE(i) ((int)((uint64_t)(i) % (uint64_t)VF.nshards) == VF.shard)
#define VF_T(q, t) (VF.thorough ? (t) : (q))

/* ------------------------------------------------------------------ rng */
typedef struct {
    uint64_t s[4];
} vf_rng;
void vf_tape_set(const uint8_t *p, size_t n); /* draws come from these bytes until used up (NULL: off) */
void vf_finish(void);                         /* closing events, once */
void vf_rng_seed(vf_rng *r, uint64_t seed);
/* stream for (VERIF_SEED, shard, purpose) */
void vf_rng_stream(vf_rng *r, uint64_t purpose);
uint64_t vf_u64(vf_rng *r);
uint64_t vf_below(vf_rng *r, uint64_t n); /* uniform in [0,n) ; n>0 */
double vf_unit(vf_rng *r);                /* [0,1) */
uint64_t vf_mix(uint64_t x);              /* splitmix finaliser (hash) */

/* ------------------------------------------------------------------ events */
void vf_add(const char *name, int64_t n);    /* named counter */
void vf_maxd(const char *name, double v);    /* named running maximum */
void vf_distinct(uint64_t key);              /* distinct non-trivial case key */
void vf_sample(const char *fmt, ...);        /* first few per worker kept */
/* Current case: written into the supervisor slot; used as replay spec. */
void vf_case(const char *fmt, ...);
const char *vf_case_get(void);
/* CPU-time watchdog (see vf_kit.c): a case that burns tick_s*ticks CPU-seconds without reaching the next vf_case() is
 * reported as a violation of kind "hang" and the worker stops.  vf_main arms a default; tick_s = 0 disarms. */
void vf_watchdog(int tick_s, int ticks);
void vf_watchdog_fn(const char *const volatile *fnp); /* where the name of the API call in progress is kept, for the report */
/* Report a violation.  kind: short class; fn: API function judged; key:
 * canonical hash of the minimal input; sigs: comma separated mechanism
 * signatures computed on this violation's own data (may be ""); detail:
 * free text.  The replay spec is the current case unless spec != NULL. */
void vf_violation_spec(const char *spec, const char *kind, const char *fn,
                       uint64_t key, const char *sigs, const char *fmt, ...);
#define vf_violation(kind, fn, key, sigs, ...) \
    vf_violation_spec(NULL, kind, fn, key, sigs, __VA_ARGS__)
/* witness of a known finding reproduced (id from known_findings.json) */
void vf_witness(const char *id, int reproduced, const char *fmt, ...);
void vf_fatal(const char *fmt, ...); /* harness failure: exit 2 */

/* ------------------------------------------------------------------ asserts */
/* The kit defines __assert_fail.  While armed, a failing library assert()
 * is recorded and control longjmps to the guard; unarmed it aborts. */
extern jmp_buf vf_assert_jmp;
extern volatile int vf_assert_armed;
extern char vf_assert_msg[256];
extern long vf_assert_hits;
/* usage: if (VF_GUARD()) { call library } else { handle hit }  VF_UNGUARD(); */
#define VF_GUARD() (vf_assert_armed = 1, setjmp(vf_assert_jmp) == 0)
#define VF_UNGUARD() (vf_assert_armed = 0)
/* default reaction: report a violation of kind "assert" for fn */
void vf_assert_report(const char *fn, uint64_t key);

/* ------------------------------------------------------------------ index ref */
#define VF_MODE(h) ((int)(((h) >> 59) & 15))
#define VF_RES(h) ((int)(((h) >> 52) & 15))
#define VF_BC(h) ((int)(((h) >> 45) & 127))
#define VF_RSV(h) ((int)(((h) >> 56) & 7))
#define VF_DIGIT(h, r) ((int)(((h) >> (3 * (15 - (r)))) & 7)) /* r = 1..15 */
static inline uint64_t vf_set_digit(uint64_t h, int r, int d) {
    int sh = 3 * (15 - r);
    return (h & ~((uint64_t)7 << sh)) | ((uint64_t)d << sh);
}
static inline uint64_t vf_set_res(uint64_t h, int res) {
    return (h & ~((uint64_t)15 << 52)) | ((uint64_t)res << 52);
}
static inline uint64_t vf_set_mode(uint64_t h, int m) {
    return (h & ~((uint64_t)15 << 59)) | ((uint64_t)m << 59);
}
static inline uint64_t vf_set_rsv(uint64_t h, int v) {
    return (h & ~((uint64_t)7 << 56)) | ((uint64_t)v << 56);
}
uint64_t vf_make_cell(int res, int bc, const int *digits /*[1..res] at [0..res-1]*/);
int ref_is_pent_bc(int bc);
extern const int REF_PENT_BC[12];
int ref_is_valid_cell(uint64_t h);
int ref_is_pentagon(uint64_t h); /* valid cell assumed */
int ref_is_valid_edge(uint64_t e);
/* number of cells at res */
int64_t ref_num_cells(int res);
/* children count of valid cell h at childRes>=res(h) (fits int64 for res<=15) */
int64_t ref_children_count(uint64_t h, int childRes);
/* i-th child (0-based, increasing index order) of valid cell h at childRes */
uint64_t ref_child_unrank(uint64_t h, int childRes, int64_t pos);
/* rank of valid cell c among the children of its ancestor at parentRes */
int64_t ref_child_rank(uint64_t c, int parentRes);
uint64_t ref_parent(uint64_t h, int parentRes);
/* enumerate all children of h at childRes in increasing order */
typedef struct {
    uint64_t h;
    int pres, cres;
    int pent;      /* parent is pentagon */
    int done;
} ref_child_iter;
void ref_child_iter_init(ref_child_iter *it, uint64_t parent, int childRes);
void ref_child_iter_next(ref_child_iter *it);
/* enumerate a whole resolution: calls f(cell, running index) for the cells
 * whose running index belongs to this shard (mine_only) */
void ref_enum_res(int res, int mine_only, void (*f)(uint64_t h, int64_t idx, void *u),
                  void *u);
/* output validity monitor: count + violation if a returned cell is invalid */
void vf_out_cell(const char *fn, uint64_t h, int want_res /* -1 any */);
void vf_out_flush(void);

/* ------------------------------------------------------------------ geometry */
typedef struct {
    ld x, y, z;
} V3;
static inline V3 v3(ld x, ld y, ld z) {
    V3 v = {x, y, z};
    return v;
}
static inline V3 v3_add(V3 a, V3 b) { return v3(a.x + b.x, a.y + b.y, a.z + b.z); }
static inline V3 v3_sub(V3 a, V3 b) { return v3(a.x - b.x, a.y - b.y, a.z - b.z); }
static inline V3 v3_scale(V3 a, ld s) { return v3(a.x * s, a.y * s, a.z * s); }
static inline ld v3_dot(V3 a, V3 b) { return a.x * b.x + a.y * b.y + a.z * b.z; }
static inline V3 v3_cross(V3 a, V3 b) {
    return v3(a.y * b.z - a.z * b.y, a.z * b.x - a.x * b.z, a.x * b.y - a.y * b.x);
}
static inline ld v3_len(V3 a) { return sqrtl(v3_dot(a, a)); }
static inline V3 v3_norm(V3 a) { return v3_scale(a, 1.0L / v3_len(a)); }
V3 v3_from_ll(LatLng g);
V3 v3_from_ll_ld(ld lat, ld lng);
LatLng v3_to_ll(V3 v);
ld v3_angle(V3 a, V3 b); /* accurate for small and large angles */
/* signed solid angle of triangle a,b,c (Van Oosterom–Strackee) */
ld v3_tri_area(V3 a, V3 b, V3 c);

typedef struct {
    H3Index h;
    int res;
    int n;       /* boundary vertex count */
    LatLng g[MAX_CELL_BNDRY_VERTS];
    V3 v[MAX_CELL_BNDRY_VERTS];
    LatLng cg;
    V3 c;
    ld width;    /* max angle centre->vertex */
} vf_cell;
/* returns 0 ok, else the failing H3Error */
int vf_cell_load(H3Index h, vf_cell *c);
/* gnomonic chart */
typedef struct {
    V3 c, e1, e2;
} vf_chart;
void vf_chart_init(vf_chart *ch, V3 centre);
static inline void vf_chart_proj(const vf_chart *ch, V3 p, ld *x, ld *y) {
    ld w = v3_dot(p, ch->c);
    *x = v3_dot(p, ch->e1) / w;
    *y = v3_dot(p, ch->e2) / w;
}
/* signed distance (chart units ~ radians near centre) of p to the boundary
 * polygon of c, in the chart centred on c's centre: <0 inside, >0 outside */
ld vf_cell_outside(const vf_cell *c, V3 p);
/* signed spherical area of the boundary (fan from the centre) */
ld vf_cell_area(const vf_cell *c);
/* geometric neighbours: distinct cells returned by latLngToCell for points
 * pushed outward across the midpoint of every boundary segment by
 * frac*(centre->midpoint). Sorted. Returns count (<=10), -1 on API error, or -2
 * when the oracle is undecided (cell so close to a pole that the push would have
 * to exceed 35% to clear the coordinate resolution stated in C02) */
int vf_geo_neighbors_c(const vf_cell *c, ld frac, H3Index out[MAX_CELL_BNDRY_VERTS]);
int vf_geo_neighbors(H3Index h, H3Index out[MAX_CELL_BNDRY_VERTS]);
/* indexes (into A's vertex list, A's counter-clockwise order) of the boundary stretch A shares
 * with B: returns the number of points (2 or 3), 0 if none, -1 if not one connected 1-2 segment run */
int vf_shared_stretch(const vf_cell *A, const vf_cell *B, int idx[4]);
int vf_geo_neighbors_cached(H3Index h, H3Index out[MAX_CELL_BNDRY_VERTS]);
#define VF_PUSH_FRAC 0.01L

/* ------------------------------------------------------------------ u64 map */
typedef struct {
    uint64_t *k;
    int64_t *v;
    size_t cap, n;
} vf_map;
void vf_map_init(vf_map *m, size_t hint);
void vf_map_free(vf_map *m);
void vf_map_clear(vf_map *m);
int64_t *vf_map_get(const vf_map *m, uint64_t key); /* NULL if absent */
int64_t *vf_map_put(vf_map *m, uint64_t key, int64_t v, int *isnew);

/* BFS on geometric adjacency from origin up to radius k (inclusive).
 * fills dist map; order[] (malloc'ed, caller frees) lists cells in BFS order;
 * returns count, -1 on API failure, -2 if the adjacency oracle is undecided
 * (polar cell below coordinate resolution) somewhere in the ball. */
int64_t vf_geo_bfs(H3Index origin, int k, vf_map *dist, H3Index **order);

/* whole-resolution graph (coarse resolutions only) on geometric adjacency */
typedef struct {
    int res;
    int32_t n;
    H3Index *cells;  /* reference enumeration order */
    int32_t *adj;    /* n*6, -1 padded */
    vf_map index;    /* cell -> position */
} vf_resgraph;
int vf_resgraph_build(vf_resgraph *g, int res);
/* BFS from src: dist[n] (int16, -1 unreachable), queue[n] scratch */
void vf_resgraph_bfs(const vf_resgraph *g, int32_t src, int16_t *dist, int32_t *queue);

/* ------------------------------------------------------------------ generators */
typedef void (*vf_cell_fn)(H3Index h, void *u);
/* the 12 icosahedron vertices (pentagon centres), 20 face centres, 30 edges */
void vf_ico_init(void);
extern V3 VF_ICO_V[12];
extern V3 VF_ICO_F[20];
extern int VF_ICO_FV[20][3];
extern int VF_ICO_E[30][2];
/* a uniformly random point on the sphere */
LatLng vf_rand_ll(vf_rng *r);
/* a random valid cell at res: stratified over base cell and leading digits */
H3Index vf_rand_cell(vf_rng *r, int res);
/* special-neighbourhood seeds at a resolution: pentagons, points on the 30
 * icosahedron edges (nper each), 20 face centres, poles, antimeridian points.
 * Writes up to cap cells, returns count. Deterministic (no rng). */
int vf_pattern_cells(int res, H3Index *out, int cap); /* digit-pattern cells (long runs of one digit); part of vf_special_seeds */
int vf_basecell_seam_cells(int res, int npairs, H3Index *out, int cap); /* both sides of base-cell territory seams; part of vf_special_seeds */
int vf_special_seeds(int res, int nper, H3Index *out, int cap);
/* cells on / 1e-6..1e-3 rad beside the quarter points and midpoints of the 30 icosahedron edges (3990 seeds) */
int vf_edge_offset_seeds(int res, H3Index *out, int cap);
/* 3*30*nper cells on / beside the 30 icosahedron edges at seed-dependent positions (see vf_kit.c) */
int vf_edge_walk_cells(int res, int nper, vf_rng *r, H3Index *out, int cap);
/* hostile index generator */
uint64_t vf_hostile_index(vf_rng *r);
int vf_hostile_int(vf_rng *r);
double vf_hostile_double(vf_rng *r);

/* ------------------------------------------------------------------ buffers */
/* exact-size heap buffer with canaries in front and behind (ASan red zones
 * sit directly around the malloc block, canaries are inside the block for
 * the non-ASan builds).  vf_buf_check returns 0 if canaries intact. */
void *vf_buf_new(size_t bytes, int fill);
int vf_buf_check(void *p);
void vf_buf_free(void *p);

/* ------------------------------------------------------------------ allocator ledger */
#ifdef VF_ALLOC
void *vfa_malloc(size_t);
void *vfa_calloc(size_t, size_t);
void *vfa_realloc(void *, size_t);
void vfa_free(void *);
typedef struct {
    long allocs;       /* allocation attempts since reset */
    long frees;
    long live;         /* live blocks */
    long double_free;  /* free of non-live pointer */
    long fail_at;      /* fail the n-th attempt (1-based), 0 = never */
    int fail_after;    /* also fail every later attempt */
    long failed;       /* injected failures */
    long zero_size;
} vfa_state_t;
extern vfa_state_t VFA;
void vfa_reset(void);
#endif

#endif
