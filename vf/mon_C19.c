/* mon_C19 — getIcosahedronFaces reports exactly the faces a cell touches
 * (DESIGN.md §5 C19).
 * Oracle: the faces of the icosahedron are the Voronoi cells of the 20 face
 * centres, so the face of a point is its nearest face centre (long double
 * chord distance), decided when the runner-up is farther by > 1e-9.  The
 * library's face numbering is taken from its exported faceCenterGeo table,
 * which is cross-checked against the 20 centroids of mutually adjacent res-0
 * pentagon centres obtained through the public API. */
#include "vf.h"

extern const LatLng faceCenterGeo[20]; /* numbering only; geometry is cross-checked */
static V3 FC[20];
static int64_t n_cells, n_multi, n_grid, n_ambig;

static void faces_init(void) {
    vf_ico_init();
    int used[20] = {0};
    for (int f = 0; f < 20; f++) {
        FC[f] = v3_from_ll(faceCenterGeo[f]);
        int hit = -1;
        for (int j = 0; j < 20; j++)
            if (v3_len(v3_sub(FC[f], VF_ICO_F[j])) < 1e-9L) hit = j;
        if (hit < 0 || used[hit]) {
            vf_violation("face-centres", "getIcosahedronFaces", (uint64_t)f, "", "face centre %d of the library table is not the centroid of three mutually adjacent pentagon centres", f);
            return;
        }
        used[hit] = 1;
    }
    vf_add("face_centres_crosschecked", 20);
}
/* nearest face; *margin = (distance to runner-up) - (distance to nearest) */
static int face_of(V3 p, ld *margin) {
    int best = -1;
    ld d1 = 1e9L, d2 = 1e9L;
    for (int f = 0; f < 20; f++) {
        ld d = v3_len(v3_sub(p, FC[f]));
        if (d < d1) {
            d2 = d1;
            d1 = d;
            best = f;
        } else if (d < d2)
            d2 = d;
    }
    *margin = d2 - d1;
    return best;
}
static void sample_grid(const vf_cell *A, int G, int hit[20]) {
    for (int i = 0; i < A->n; i++) {
        V3 a = v3_sub(A->v[i], A->c), b = v3_sub(A->v[(i + 1) % A->n], A->c);
        for (int u = 0; u <= G; u++)
            for (int w = 0; u + w <= G; w++) {
                ld fu = 0.999L * u / G, fw = 0.999L * w / G;
                V3 p = v3_norm(v3_add(A->c, v3_add(v3_scale(a, fu), v3_scale(b, fw))));
                ld m;
                int f = face_of(p, &m);
                if (m > 1e-9L) hit[f] = 1;
            }
    }
}

static void case_cell(H3Index h) {
    vf_case("cell %016" PRIx64, h);
    uint64_t key = vf_mix(h ^ 0x19);
    if (!VF_GUARD()) {
        vf_assert_report("getIcosahedronFaces", key);
        VF_UNGUARD();
        return;
    }
    vf_cell A;
    if (vf_cell_load(h, &A)) {
        VF_UNGUARD();
        return;
    }
    n_cells++;
    int pent = ref_is_pentagon(h), mfc = -1;
    H3Error e = maxFaceCount(h, &mfc);
    if (e || mfc != (pent ? 5 : 2)) {
        vf_violation("max-count", "maxFaceCount", key, "", "maxFaceCount(%016" PRIx64 ") rc=%u -> %d, expected %d", h, e, mfc, pent ? 5 : 2);
        VF_UNGUARD();
        return;
    }
    int *out = vf_buf_new((size_t)mfc * sizeof(int), 0x77);
    e = getIcosahedronFaces(h, out);
    if (vf_buf_check(out)) vf_violation("overrun", "getIcosahedronFaces", key, "", "canary damaged");
    if (e) {
        vf_violation("error", "getIcosahedronFaces", key, "", "rc=%u on valid cell %016" PRIx64, e, h);
        goto done;
    }
    int rep[20] = {0}, nrep = 0;
    for (int i = 0; i < mfc; i++) {
        if (out[i] == -1) continue;
        if (out[i] < 0 || out[i] > 19) {
            vf_violation("bad-entry", "getIcosahedronFaces", key, "", "slot %d holds %d", i, out[i]);
            goto done;
        }
        if (rep[out[i]]) {
            vf_violation("duplicate", "getIcosahedronFaces", key, "", "face %d listed twice for %016" PRIx64, out[i], h);
            goto done;
        }
        rep[out[i]] = 1;
        nrep++;
    }
    if (pent ? nrep != 5 : (nrep < 1 || nrep > 2))
        vf_violation("count", "getIcosahedronFaces", key, "", "%s %016" PRIx64 " reports %d faces", pent ? "pentagon" : "hexagon", h, nrep);
    /* oracle */
    int hit[20] = {0}, all_same = 1, first = -1;
    ld m;
    int fc = face_of(A.c, &m);
    if (m > 1e-9L) hit[fc] = 1;
    else all_same = 0;
    first = fc;
    for (int i = 0; i < A.n; i++) {
        int f = face_of(A.v[i], &m);
        if (m > 1e-9L) {
            hit[f] = 1; /* a vertex strictly inside a face region: an open neighbourhood, hence interior points, lie on that face */
            if (f != first) all_same = 0;
        } else
            all_same = 0;
    }
    if (!all_same) {
        n_grid++;
        sample_grid(&A, VF_T(12, 40), hit);
    }
    int nhit = 0;
    for (int f = 0; f < 20; f++) nhit += hit[f];
    if (nhit > 1) n_multi++;
    int dense = 0;
    for (int f = 0; f < 20; f++) {
        if (hit[f] && !rep[f])
            vf_violation("missing-face", "getIcosahedronFaces", key ^ vf_mix((uint64_t)f), "", "interior points of %016" PRIx64 " lie on face %d (nearest face centre, margin > 1e-9) but it is not reported", h, f);
        if (rep[f] && !hit[f]) {
            if (!dense) {
                sample_grid(&A, 200, hit);
                dense = 1;
            }
            if (hit[f]) continue;
            /* How far does the cell reach into that face's region?  pen = max over boundary points of (distance to the nearest
             * other face centre - distance to this face's centre): > 0 strictly inside the region.  The substrate lattice makes
             * real penetrations at least a fraction of a cell wide (>= 1e-8 rad at res 15); a cell that only touches the region
             * along its boundary (a vertex or an edge on the icosahedron edge) has pen = 0 up to rounding, and its *interior*
             * does not intersect the face.  On the unchanged tree no reported face ever needed this branch (0 of 2.4e6 cells). */
            ld pen = -1e9L;
            for (int i = 0; i < A.n; i++)
                for (int t = 0; t <= 50; t++) {
                    V3 p = v3_norm(v3_add(v3_scale(A.v[i], 1 - t / 50.0L), v3_scale(A.v[(i + 1) % A.n], t / 50.0L)));
                    ld other = 1e9L;
                    for (int g = 0; g < 20; g++) {
                        ld d = v3_len(v3_sub(p, FC[g]));
                        if (g != f && d < other) other = d;
                    }
                    ld adv = other - v3_len(v3_sub(p, FC[f]));
                    if (adv > pen) pen = adv;
                }
            if (pen > 1e-12L) {
                n_ambig++; /* a sliver thinner than the sampling, or within the rounding band: not judged */
            } else
                vf_violation("extra-face", "getIcosahedronFaces", key ^ vf_mix((uint64_t)f + 100), "", "%016" PRIx64 " reports face %d but no interior sample (200x200 per fan triangle) lies on it and its boundary reaches at most %.3Lg rad into that face's region (it touches the face along its boundary at most; the interior does not intersect it)", h, f, pen);
        }
    }
    if (nhit > 1 || pent) vf_distinct(key);
    vf_sample("cell %016" PRIx64 ": reports %d face(s), interior samples hit %d face(s)", h, nrep, nhit);
done:
    VF_UNGUARD();
    vf_buf_free(out);
}
static void on_cell(uint64_t h, int64_t idx, void *u) {
    (void)idx;
    (void)u;
    case_cell(h);
}
static void run(void) {
    vf_rng r;
    vf_rng_stream(&r, 19);
    faces_init();
    int full = VF_T(5, 6);
    for (int res = 0; res <= full; res++) ref_enum_res(res, 1, on_cell, NULL);
    H3Index seeds[1200];
    int64_t idx = 0, sz;
    maxGridDiskSize(2, &sz);
    H3Index *d = vf_buf_new((size_t)sz * 8, 0);
    for (int res = full + 1; res <= 15; res++) {
        int n = vf_special_seeds(res, VF_T(20, 35), seeds, 1200);
        for (int i = 0; i < n; i++) {
            if (!VF_MINE(idx++)) continue;
            memset(d, 0, (size_t)sz * 8);
            if (gridDisk(seeds[i], i < 12 ? 2 : 1, d)) continue;
            for (int64_t j = 0; j < sz; j++)
                if (d[j]) {
                    case_cell(d[j]);
                    vf_add("special.cells", 1);
                }
        }
        int nr = VF_T(300, 5000);
        for (int i = 0; i < nr; i++) case_cell(vf_rand_cell(&r, res));
    }
    vf_buf_free(d);
    vf_add("cells", n_cells);
    vf_add("cells.multi_face", n_multi);
    vf_add("cells.grid_sampled", n_grid);
    vf_add("ambiguous.reported_face_not_sampled", n_ambig);
}
static void replay(const char *spec) {
    uint64_t h;
    faces_init();
    if (sscanf(spec, "cell %" SCNx64, &h) == 1)
        case_cell(h);
    else
        vf_fatal("bad replay spec: %s", spec);
    vf_add("cells", n_cells);
}
int main(int argc, char **argv) { return vf_main(argc, argv, "C19", run, replay); }
