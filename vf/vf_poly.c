/* vf_poly.c — polygon generator shared by C07, C15, C12, C16, C17, C18.
 *
 * Loops are star-shaped in the (lat,lng) plane around a centre, optionally
 * squeezed to a needle (linear map: keeps simplicity, containment and
 * disjointness), with 0..3 holes constructed strictly inside the largest disc
 * contained in the outer loop and pairwise disjoint.  Both the *unrolled*
 * coordinates (longitudes may leave [-pi,pi]; used by oracles) and the wrapped
 * ones (given to the library) are kept.
 *
 * The generator enforces the reading of "well-formed" used by C07/C15
 * (DESIGN.md §5 C07): simple, no pole inside, every edge < 180 degrees of
 * longitude, whole loop spans < 180 degrees of longitude when unrolled.
 */
#include "vf.h"
#include "vf_poly.h"

static double wrap_lng(double x) {
    while (x > M_PI) x -= 2 * M_PI;
    while (x < -M_PI) x += 2 * M_PI;
    return x;
}
void vf_poly_free(vf_poly *p) {
    free(p->outer_u);
    free(p->outer_w);
    for (int h = 0; h < VF_POLY_MAXH; h++) {
        free(p->hole_u[h]);
        free(p->hole_w[h]);
    }
    memset(p, 0, sizeof *p);
}
static void star(vf_rng *r, int n, double rmin, double *ang, double *rad) {
    /* increasing angles with random gaps, radii in [rmin,1] */
    double tot = 0;
    for (int i = 0; i < n; i++) {
        ang[i] = 0.2 + vf_unit(r);
        tot += ang[i];
    }
    double a = vf_unit(r) * 2 * M_PI;
    for (int i = 0; i < n; i++) {
        double step = ang[i] / tot * 2 * M_PI;
        /* keep every angular gap below pi so the centre stays strictly inside */
        a += step;
        ang[i] = a;
        rad[i] = rmin + (1 - rmin) * vf_unit(r);
    }
}
int vf_poly_gen(vf_rng *r, const vf_poly_opts *o, vf_poly *p) {
    memset(p, 0, sizeof *p);
    int n = o->nverts;
    if (n < 3) n = 3;
    double ang[64], rad[64];
    if (n > 64) n = 64;
    /* largest angular gap must stay < pi: with n == 3 or 4 force near-regular spacing */
    star(r, n, o->rmin, ang, rad);
    for (int i = 0; i < n; i++) {
        double gap = (i ? ang[i] - ang[i - 1] : ang[0] + 2 * M_PI - ang[n - 1]);
        if (gap > 0.9 * M_PI) { /* regularise */
            double a0 = ang[0];
            for (int k = 0; k < n; k++) ang[k] = a0 + 2 * M_PI * k / n;
            break;
        }
    }
    double rot = o->needle_rot, sq = o->aspect > 0 ? o->aspect : 1.0;
    double cl = cos(o->lat0);
    p->n = n;
    p->outer_u = malloc((size_t)n * sizeof(LatLng));
    p->outer_w = malloc((size_t)n * sizeof(LatLng));
    double minlng = 1e9, maxlng = -1e9, minlat = 1e9, maxlat = -1e9;
    for (int i = 0; i < n; i++) {
        double x = rad[i] * cos(ang[i]), y = rad[i] * sin(ang[i]) * sq; /* squeeze y */
        double xr = x * cos(rot) - y * sin(rot), yr = x * sin(rot) + y * cos(rot);
        LatLng g = {o->lat0 + o->radius * yr, o->lng0 + o->radius * xr / cl};
        p->outer_u[i] = g;
        if (g.lng < minlng) minlng = g.lng;
        if (g.lng > maxlng) maxlng = g.lng;
        if (g.lat < minlat) minlat = g.lat;
        if (g.lat > maxlat) maxlat = g.lat;
    }
    if (maxlat > 1.48 || minlat < -1.48) return 0; /* stays away from the poles */
    if (maxlng - minlng >= 3.0) return 0;          /* unrolled span < 180 degrees (with margin) */
    for (int i = 0; i < n; i++) {
        p->outer_w[i].lat = p->outer_u[i].lat;
        p->outer_w[i].lng = wrap_lng(p->outer_u[i].lng);
    }
    p->crosses_antimeridian = (maxlng > M_PI || minlng < -M_PI);
    p->bbox_u[0] = minlat;
    p->bbox_u[1] = maxlat;
    p->bbox_u[2] = minlng;
    p->bbox_u[3] = maxlng;
    /* holes: inside the largest disc around the centre that fits into the outer loop (measured before the
     * linear map, which preserves containment and disjointness), centres 120 degrees apart */
    double inr = 1e9;
    for (int i = 0; i < n; i++) {
        int j = (i + 1) % n;
        double ax = rad[i] * cos(ang[i]), ay = rad[i] * sin(ang[i]), bx = rad[j] * cos(ang[j]), by = rad[j] * sin(ang[j]);
        double dx = bx - ax, dy = by - ay, t = -(ax * dx + ay * dy) / (dx * dx + dy * dy);
        if (t < 0) t = 0;
        if (t > 1) t = 1;
        double d = hypot(ax + t * dx, ay + t * dy);
        if (d < inr) inr = d;
    }
    p->nholes = o->nholes > 3 ? 3 : o->nholes;
    if (inr < 0.02) p->nholes = 0;
    double base = vf_unit(r) * 2 * M_PI;
    for (int h = 0; h < p->nholes; h++) {
        int hn = 3 + (int)vf_below(r, 6);
        double hang[64], hrad[64];
        star(r, hn, 0.5, hang, hrad);
        for (int i = 0; i < hn; i++) {
            double gap = (i ? hang[i] - hang[i - 1] : hang[0] + 2 * M_PI - hang[hn - 1]);
            if (gap > 0.9 * M_PI) {
                for (int k = 0; k < hn; k++) hang[k] = hang[0] + 2 * M_PI * k / hn;
                break;
            }
        }
        double cx = 0.5 * inr * cos(base + h * 2 * M_PI / 3), cy = 0.5 * inr * sin(base + h * 2 * M_PI / 3);
        double hr = inr * (0.05 + 0.14 * vf_unit(r)) * (o->hole_scale > 0 ? o->hole_scale : 1.0);
        p->hn[h] = hn;
        p->hole_u[h] = malloc((size_t)hn * sizeof(LatLng));
        p->hole_w[h] = malloc((size_t)hn * sizeof(LatLng));
        for (int i = 0; i < hn; i++) {
            /* clockwise or counter-clockwise: the library accepts both */
            int k = o->holes_cw ? hn - 1 - i : i;
            double x = cx + hr * hrad[k] * cos(hang[k]), y = (cy + hr * hrad[k] * sin(hang[k])) * sq;
            double xr = x * cos(rot) - y * sin(rot), yr = x * sin(rot) + y * cos(rot);
            LatLng g = {o->lat0 + o->radius * yr, o->lng0 + o->radius * xr / cl};
            p->hole_u[h][i] = g;
            p->hole_w[h][i].lat = g.lat;
            p->hole_w[h][i].lng = wrap_lng(g.lng);
        }
        p->holes[h].numVerts = hn;
        p->holes[h].verts = p->hole_w[h];
    }
    p->gp.geoloop.numVerts = n;
    p->gp.geoloop.verts = p->outer_w;
    p->gp.numHoles = p->nholes;
    p->gp.holes = p->nholes ? p->holes : NULL;
    return 1;
}

/* three-valued planar point-in-polygon in long double on the unrolled coordinates.
 * returns +1 inside, -1 outside, 0 too close to an edge (within band) */
static int loop_side(const LatLng *v, int n, ld lat, ld lng, ld band, ld *mind_out) {
    int in = 0;
    ld mind = 1e9L;
    for (int i = 0; i < n; i++) {
        ld ax = v[i].lng, ay = v[i].lat, bx = v[(i + 1) % n].lng, by = v[(i + 1) % n].lat;
        if ((ay > lat) != (by > lat)) {
            ld x = ax + (lat - ay) / (by - ay) * (bx - ax);
            if (x > lng) in = !in;
        }
        if (ax == bx && ay == by) continue; /* a vertex listed twice in a row: zero-length edge */
        ld dx = bx - ax, dy = by - ay, t = ((lng - ax) * dx + (lat - ay) * dy) / (dx * dx + dy * dy);
        if (t < 0) t = 0;
        if (t > 1) t = 1;
        ld qx = ax + t * dx - lng, qy = ay + t * dy - lat, d = sqrtl(qx * qx + qy * qy);
        if (d < mind) mind = d;
    }
    if (mind_out && mind < *mind_out) *mind_out = mind;
    if (mind <= band) return 0;
    return in ? 1 : -1;
}
int vf_poly_side(const vf_poly *p, LatLng pt, ld band, ld *mind) {
    /* bring the point into the polygon's unrolled longitude frame */
    ld lng = pt.lng, mid = 0.5L * (p->bbox_u[2] + p->bbox_u[3]);
    while (lng - mid > VF_PI) lng -= 2 * VF_PI;
    while (lng - mid < -VF_PI) lng += 2 * VF_PI;
    ld md = 1e9L;
    int s = loop_side(p->outer_u, p->n, pt.lat, lng, band, &md);
    int res = s;
    for (int h = 0; h < p->nholes && res != 0; h++) {
        int hs = loop_side(p->hole_u[h], p->hn[h], pt.lat, lng, band, &md);
        if (hs == 0) res = 0;
        else if (hs > 0 && res > 0) res = -1; /* inside a hole = outside the polygon */
    }
    /* even if outside the outer loop, a hole edge cannot be closer than the outer loop, but keep md global */
    if (mind) *mind = md;
    if (s == 0) return 0;
    return res;
}

/* ---- shapes the star generator never produces: edges along parallels and meridians, and vertices that share their exact
 * latitude (or longitude) with a cell centre, so that the ray a point-in-polygon test casts from that centre runs through a
 * vertex or along an edge. */
static int seg_cross(LatLng a, LatLng b, LatLng c, LatLng d) {
    ld d1 = ((ld)b.lng - a.lng) * ((ld)c.lat - a.lat) - ((ld)b.lat - a.lat) * ((ld)c.lng - a.lng);
    ld d2 = ((ld)b.lng - a.lng) * ((ld)d.lat - a.lat) - ((ld)b.lat - a.lat) * ((ld)d.lng - a.lng);
    ld d3 = ((ld)d.lng - c.lng) * ((ld)a.lat - c.lat) - ((ld)d.lat - c.lat) * ((ld)a.lng - c.lng);
    ld d4 = ((ld)d.lng - c.lng) * ((ld)b.lat - c.lat) - ((ld)d.lat - c.lat) * ((ld)b.lng - c.lng);
    return ((d1 > 0) != (d2 > 0) || d1 == 0 || d2 == 0) && ((d3 > 0) != (d4 > 0) || d3 == 0 || d4 == 0); /* touching counts as crossing */
}
static int loop_simple(const LatLng *v, int n) {
    for (int i = 0; i < n; i++)
        for (int j = i + 1; j < n; j++) {
            if (j == i + 1 || (i == 0 && j == n - 1)) { /* adjacent edges share a vertex: must not be degenerate */
                if (v[i].lat == v[(i + 1) % n].lat && v[i].lng == v[(i + 1) % n].lng) return 0;
                continue;
            }
            if (seg_cross(v[i], v[(i + 1) % n], v[j], v[(j + 1) % n])) return 0;
        }
    return 1;
}
static void poly_finish(vf_poly *p) {
    double minlng = 1e9, maxlng = -1e9, minlat = 1e9, maxlat = -1e9;
    for (int i = 0; i < p->n; i++) {
        LatLng g = p->outer_u[i];
        p->outer_w[i].lat = g.lat;
        p->outer_w[i].lng = wrap_lng(g.lng);
        if (g.lng < minlng) minlng = g.lng;
        if (g.lng > maxlng) maxlng = g.lng;
        if (g.lat < minlat) minlat = g.lat;
        if (g.lat > maxlat) maxlat = g.lat;
    }
    p->crosses_antimeridian = (maxlng > M_PI || minlng < -M_PI);
    p->bbox_u[0] = minlat, p->bbox_u[1] = maxlat, p->bbox_u[2] = minlng, p->bbox_u[3] = maxlng;
    for (int h = 0; h < p->nholes; h++) {
        for (int i = 0; i < p->hn[h]; i++) {
            p->hole_w[h][i].lat = p->hole_u[h][i].lat;
            p->hole_w[h][i].lng = wrap_lng(p->hole_u[h][i].lng);
        }
        p->holes[h].numVerts = p->hn[h];
        p->holes[h].verts = p->hole_w[h];
    }
    p->gp.geoloop.numVerts = p->n;
    p->gp.geoloop.verts = p->outer_w;
    p->gp.numHoles = p->nholes;
    p->gp.holes = p->nholes ? p->holes : NULL;
}
/* axis-aligned rectangle or L-shape with up to 3 axis-aligned rectangular holes (disjoint, strictly inside, by construction) */
static int poly_axis(vf_rng *r, const vf_poly_opts *o, vf_poly *p) {
    memset(p, 0, sizeof *p);
    double hy = o->radius * (o->aspect > 0 ? (o->aspect < 0.02 ? 0.02 : o->aspect) : 1.0), hx = o->radius / cos(o->lat0);
    if (o->lat0 + hy > 1.48 || o->lat0 - hy < -1.48 || 2 * hx >= 3.0) return 0;
    int lshape = (int)vf_below(r, 2);
    double x0 = o->lng0 - hx, x2 = o->lng0 + hx, y0 = o->lat0 - hy, y2 = o->lat0 + hy;
    double xm = o->lng0 + hx * (0.1 + 0.5 * vf_unit(r)), ym = o->lat0 + hy * (0.1 + 0.5 * vf_unit(r));
    p->n = lshape ? 6 : 4;
    p->outer_u = malloc(6 * sizeof(LatLng));
    p->outer_w = malloc(6 * sizeof(LatLng));
    if (lshape) {
        LatLng v[6] = {{y0, x0}, {y0, x2}, {ym, x2}, {ym, xm}, {y2, xm}, {y2, x0}};
        memcpy(p->outer_u, v, sizeof v);
    } else {
        LatLng v[4] = {{y0, x0}, {y0, x2}, {y2, x2}, {y2, x0}};
        memcpy(p->outer_u, v, sizeof v);
        xm = x2, ym = y2;
    }
    if (o->nholes > 3) {
        /* many thin east-west slits stacked in latitude inside the block [x0,xm] x [y0,ym] (disjoint, strictly inside): each
         * hole loop is traced separately by the legacy fill, whose scratch arrays are sized for the outer loop's estimate */
        int K = o->nholes > 28 ? 28 : o->nholes;
        double bh = (ym - y0) / (K + 1), mx = (xm - x0) * 0.06;
        p->nholes = K;
        for (int h = 0; h < K; h++) {
            double yc = y0 + bh * (h + 1), hh = bh * (0.04 + 0.2 * vf_unit(r));
            LatLng v[4] = {{yc - hh, x0 + mx}, {yc - hh, xm - mx}, {yc + hh, xm - mx}, {yc + hh, x0 + mx}};
            p->hn[h] = 4;
            p->hole_u[h] = malloc(4 * sizeof(LatLng));
            p->hole_w[h] = malloc(4 * sizeof(LatLng));
            for (int i = 0; i < 4; i++) p->hole_u[h][i] = v[o->holes_cw ? 3 - i : i];
        }
        poly_finish(p);
        return 1;
    }
    /* holes live in the block [x0,xm] x [y0,ym], one per quadrant of that block */
    p->nholes = o->nholes > 3 ? 3 : o->nholes;
    for (int h = 0; h < p->nholes; h++) {
        double bx0 = x0 + (h & 1) * (xm - x0) / 2, bx1 = bx0 + (xm - x0) / 2, by0 = y0 + (h >> 1) * (ym - y0) / 2, by1 = by0 + (ym - y0) / 2;
        double mx = (bx1 - bx0) * (0.2 + 0.2 * vf_unit(r)), my = (by1 - by0) * (0.2 + 0.2 * vf_unit(r));
        LatLng v[4] = {{by0 + my, bx0 + mx}, {by0 + my, bx1 - mx}, {by1 - my, bx1 - mx}, {by1 - my, bx0 + mx}};
        p->hn[h] = 4;
        p->hole_u[h] = malloc(4 * sizeof(LatLng));
        p->hole_w[h] = malloc(4 * sizeof(LatLng));
        for (int i = 0; i < 4; i++) p->hole_u[h][i] = v[o->holes_cw ? 3 - i : i];
    }
    poly_finish(p);
    return 1;
}
/* move vertices of the outer loop onto the exact latitude (sometimes longitude) of the centre of the cell they lie in; the
 * result is kept only if the loop is still simple and every hole is still strictly inside it */
static void poly_snap(vf_rng *r, vf_poly *p, int res, double width) {
    LatLng *save = malloc((size_t)p->n * sizeof(LatLng));
    memcpy(save, p->outer_u, (size_t)p->n * sizeof(LatLng));
    for (int i = 0; i < p->n; i++) {
        if (vf_below(r, 3) == 0) continue;
        H3Index h;
        LatLng c, w = {p->outer_u[i].lat, wrap_lng(p->outer_u[i].lng)};
        if (latLngToCell(&w, res, &h) || cellToLatLng(h, &c)) continue;
        if (vf_below(r, 4)) p->outer_u[i].lat = c.lat;
        else {
            double dl = c.lng - w.lng;
            if (fabs(dl) < 1.0) p->outer_u[i].lng += dl;
        }
    }
    int ok = loop_simple(p->outer_u, p->n);
    for (int h = 0; h < p->nholes && ok; h++)
        for (int i = 0; i < p->hn[h] && ok; i++)
            if (loop_side(p->outer_u, p->n, p->hole_u[h][i].lat, p->hole_u[h][i].lng, 0.25L * width, NULL) != 1) ok = 0;
    for (int i = 0; i < p->n && ok; i++)
        if (fabs(p->outer_u[i].lat) > 1.48) ok = 0;
    if (!ok) memcpy(p->outer_u, save, (size_t)p->n * sizeof(LatLng));
    free(save);
    poly_finish(p);
    if (p->bbox_u[3] - p->bbox_u[2] >= 3.0) p->n = 0; /* cannot happen for a move of less than a cell; guarded anyway */
}

/* small polygons whose vertices hug the corners of cells of the fill resolution (offsets of 1e-5 .. 3e-2 cell widths, any
 * direction): the points where three cells meet are where the rounding of latLngToCell is most delicate, and the containment
 * modes look at the cell of the polygon's first vertex.  Two forms: a small convex polygon whose first vertex hugs one corner,
 * or the outline of the cell itself with every corner displaced a little. */
static int poly_corner(vf_rng *r, H3Index cell, double w, double lng_ref, vf_poly *p) {
    memset(p, 0, sizeof *p);
    CellBoundary cb;
    if (cellToBoundary(cell, &cb) || cb.numVerts < 5) return 0;
    LatLng v[MAX_CELL_BNDRY_VERTS];
    for (int i = 0; i < cb.numVerts; i++) {
        v[i] = cb.verts[i];
        while (v[i].lng - lng_ref > M_PI) v[i].lng -= 2 * M_PI;
        while (v[i].lng - lng_ref < -M_PI) v[i].lng += 2 * M_PI;
        if (fabs(v[i].lat) > 1.45) return 0;
    }
    int k = (int)vf_below(r, (uint64_t)cb.numVerts);
    p->outer_u = malloc(16 * sizeof(LatLng));
    p->outer_w = malloc(16 * sizeof(LatLng));
    if (vf_below(r, 3)) {
        double cl = cos(v[k].lat);
        double dm = w * pow(10.0, -5.0 + 3.5 * vf_unit(r)), da = vf_unit(r) * 2 * M_PI;
        LatLng v0 = {v[k].lat + dm * sin(da), v[k].lng + dm * cos(da) / cl};
        int n = 3 + (int)vf_below(r, 4);
        double rho = w * pow(10.0, -3.0 + 2.5 * vf_unit(r)), psi = vf_unit(r) * 2 * M_PI;
        double cy = v0.lat + rho * sin(psi), cx = v0.lng + rho * cos(psi) / cl;
        p->n = n;
        p->outer_u[0] = v0;
        for (int i = 1; i < n; i++) {
            double a = psi + M_PI + 2 * M_PI * (i + 0.3 * (vf_unit(r) - 0.5)) / n;
            p->outer_u[i].lat = cy + rho * sin(a);
            p->outer_u[i].lng = cx + rho * cos(a) / cl;
        }
    } else {
        p->n = cb.numVerts;
        for (int i = 0; i < cb.numVerts; i++) {
            int j = (k + i) % cb.numVerts;
            double dm = w * pow(10.0, -5.0 + 3.5 * vf_unit(r)), da = vf_unit(r) * 2 * M_PI;
            p->outer_u[i].lat = v[j].lat + dm * sin(da);
            p->outer_u[i].lng = v[j].lng + dm * cos(da) / cos(v[j].lat);
        }
    }
    if (!loop_simple(p->outer_u, p->n)) {
        free(p->outer_u), free(p->outer_w);
        p->outer_u = p->outer_w = NULL;
        p->n = 0;
        return 0;
    }
    poly_finish(p);
    return p->bbox_u[3] - p->bbox_u[2] < 3.0;
}

/* the standard polygon case of C07/C15: everything derived from one 64-bit seed (tier independent) */
/* build the polygon of a case from its seed */
int vf_poly_case(uint64_t seed, vf_poly *P, int *res_out, char *desc, size_t dlen) {
    vf_rng r;
    vf_rng_seed(&r, seed);
    int res = (int)vf_below(&r, 16);
    vf_poly_opts o = {0};
    int place = (int)vf_below(&r, 8);
    LatLng c;
    if (place == 0) { /* a pentagon's surroundings */
        cellToLatLng(vf_make_cell(res, REF_PENT_BC[vf_below(&r, 12)], (int[15]){0}), &c);
    } else if (place <= 2) { /* on the antimeridian */
        c.lat = asin(2 * vf_unit(&r) - 1) * 0.85;
        c.lng = vf_below(&r, 2) ? M_PI : -M_PI;
    } else {
        c = vf_rand_ll(&r);
        c.lat *= 0.9;
    }
    H3Index ch;
    vf_cell cc;
    if (latLngToCell(&c, res, &ch) || vf_cell_load(ch, &cc)) return 0;
    double w = (double)cc.width;
    /* size in cell widths: 0.05 .. 30, log-uniform */
    double sizew = 0.05 * pow(600.0, vf_unit(&r));
    o.radius = sizew * w;
    if (o.radius > 0.5) o.radius = 0.5;
    o.lat0 = c.lat + (vf_unit(&r) - 0.5) * 2 * w;
    o.lng0 = c.lng + (vf_unit(&r) - 0.5) * 2 * w / cos(c.lat);
    o.rmin = vf_below(&r, 3) ? 0.3 + 0.6 * vf_unit(&r) : 0.08 + 0.2 * vf_unit(&r); /* concavity */
    int needle = vf_below(&r, 3) == 0;
    o.aspect = needle ? pow(10.0, -0.7 - 2.0 * vf_unit(&r)) : 1.0; /* down to 1:500 */
    o.needle_rot = vf_unit(&r) * M_PI;
    o.nverts = 3 + (int)vf_below(&r, 38);
    o.nholes = vf_below(&r, 3) == 0 ? 1 + (int)vf_below(&r, 3) : 0;
    o.holes_cw = (int)vf_below(&r, 2);
    o.hole_scale = 0.5 + 1.5 * vf_unit(&r);
    /* seeds ending in binary 110 get one of the special shapes (the listed witnesses of repaired defects end otherwise) */
    const char *shape = "";
    if ((seed & 7) == 6 && !(seed >> 3 & 1)) {
        if ((seed >> 4 & 3) == 1) o.nholes = 4 + (int)vf_below(&r, 25); /* a quarter of them: 4..28 slit holes */
        if (!poly_axis(&r, &o, P)) return 0;
        shape = "axis-aligned, ";
    } else if ((seed & 7) == 6 && o.radius <= 1.5 * w) {
        if (!poly_corner(&r, ch, w, c.lng, P)) return 0;
        shape = "hugging cell corners, ";
    } else {
        if (!vf_poly_gen(&r, &o, P)) return 0;
        if ((seed & 7) == 6 && o.radius > 1.5 * w) {
            poly_snap(&r, P, res, w);
            if (!P->n) return 0;
            shape = "vertices snapped to cell-centre latitudes/longitudes, ";
        }
    }
    /* one seed in sixteen: a vertex is listed twice in a row (outer loop or a hole), or the outer ring is closed GeoJSON-style
     * by repeating its first vertex at the end — the same point set, one zero-length edge more.  (Classes of bits 7-10 that no
     * listed witness seed falls into; the draws come from a generator of their own, so the shape itself is unchanged.) */
    const char *dupl = "";
    if ((seed >> 7 & 15) == 3) {
        vf_rng r2;
        vf_rng_seed(&r2, seed ^ 0xD0B1ULL);
        int hsel = P->nholes && vf_below(&r2, 3) == 0 ? (int)vf_below(&r2, (uint64_t)P->nholes) : -1;
        LatLng **lu = hsel < 0 ? &P->outer_u : &P->hole_u[hsel], **lw = hsel < 0 ? &P->outer_w : &P->hole_w[hsel];
        int *ln = hsel < 0 ? &P->n : &P->hn[hsel];
        int at = hsel < 0 && vf_below(&r2, 3) == 0 ? *ln - 1 : (int)vf_below(&r2, (uint64_t)*ln); /* at == n-1 with src 0: closing vertex */
        int closing = hsel < 0 && at == *ln - 1 && vf_below(&r2, 2);
        LatLng *nu = malloc((size_t)(*ln + 1) * sizeof(LatLng)), *nw = malloc((size_t)(*ln + 1) * sizeof(LatLng));
        for (int i = 0, o2 = 0; i < *ln; i++) {
            nu[o2++] = (*lu)[i];
            if (i == at) nu[o2++] = closing ? (*lu)[0] : (*lu)[i];
        }
        free(*lu), free(*lw);
        *lu = nu, *lw = nw;
        (*ln)++;
        poly_finish(P);
        dupl = closing ? "first vertex listed twice (closed ring), " : hsel < 0 ? "an outer vertex listed twice, " : "a hole vertex listed twice, ";
    }
    *res_out = res;
    snprintf(desc, dlen, "%s%sres %d,", shape, dupl, res);
    dlen -= strlen(desc), desc += strlen(desc);
    snprintf(desc, dlen, " %d vertices, %d hole(s), size %.2f cell widths, aspect %.4f, %s%s centre (%.4f,%.4f)", P->n, P->nholes, o.radius / w, o.aspect,
             P->crosses_antimeridian ? "crosses the antimeridian, " : "", place == 0 ? "around a pentagon," : "", o.lat0, o.lng0);
    return 1;
}

