/* mon_C05 — gridDisk family equals breadth-first search on a symmetric
 * neighbour graph (DESIGN.md §5 C05).
 * Oracle: BFS over geometric adjacency (latLngToCell of points pushed across
 * each boundary segment) — never h3NeighborRotations or its tables. */
#include "vf.h"

static vf_map dist;
static int cmp_u64(const void *a, const void *b) {
    uint64_t x = *(const uint64_t *)a, y = *(const uint64_t *)b;
    return x < y ? -1 : x > y;
}
static int64_t maxdisk(int k) { return 3 * (int64_t)k * (k + 1) + 1; }

/* compare a safe-family output (cells + optional distances) with the BFS ball */
static void judge_ball(const char *fn, H3Index o, int k, uint64_t key, const H3Index *out, const int *dd, int64_t sz, int64_t nball) {
    int64_t cnt = 0;
    vf_map seen;
    vf_map_init(&seen, (size_t)nball + 8);
    for (int64_t i = 0; i < sz; i++) {
        if (!out[i]) continue;
        cnt++;
        int isnew;
        vf_map_put(&seen, out[i], 1, &isnew);
        if (!isnew) {
            vf_violation("duplicate", fn, key, "", "%s(%016" PRIx64 ", %d): %016" PRIx64 " appears twice", fn, o, k, out[i]);
            break;
        }
        int64_t *d = vf_map_get(&dist, out[i]);
        if (!d) {
            vf_violation("extra", fn, key, "", "%s(%016" PRIx64 ", %d) returned %016" PRIx64 " which is not within %d neighbour steps", fn, o, k, out[i], k);
            break;
        }
        if (dd && dd[i] != *d) {
            vf_violation("distance", fn, key, "", "%s(%016" PRIx64 ", %d): %016" PRIx64 " reported at distance %d, BFS depth %" PRId64, fn, o, k, out[i], dd[i], *d);
            break;
        }
        if (i < 8) vf_out_cell(fn, out[i], VF_RES(o));
    }
    if (cnt != nball && seen.n == (size_t)cnt)
        vf_violation("missing", fn, key, "", "%s(%016" PRIx64 ", %d) returned %" PRId64 " cells, BFS ball has %" PRId64, fn, o, k, cnt, nball);
    vf_map_free(&seen);
}
/* Unsafe family: error, or slots of ring j hold exactly the BFS sphere of radius j */
static void judge_rings(const char *fn, H3Index o, int k, uint64_t key, H3Error e, const H3Index *out, const int *dd, int64_t *sphere) {
    if (e) {
        vf_add("unsafe.errors", 1);
        return;
    }
    vf_add("unsafe.successes", 1);
    for (int j = 0; j <= k; j++) {
        int64_t lo = j ? maxdisk(j - 1) : 0, hi = maxdisk(j);
        if (sphere[j] != hi - lo) {
            vf_violation("unsafe-not-flagged", fn, key, "", "%s(%016" PRIx64 ", %d) succeeded although ring %d has only %" PRId64 " of %" PRId64 " cells (pentagon distortion)", fn, o, k, j, sphere[j], hi - lo);
            return;
        }
        for (int64_t i = lo; i < hi; i++) {
            int64_t *d = out[i] ? vf_map_get(&dist, out[i]) : NULL;
            if (!d || *d != j || (dd && dd[i] != j)) {
                vf_violation("ring-order", fn, key, "", "%s(%016" PRIx64 ", %d): slot %" PRId64 " (ring %d) holds %016" PRIx64 " at BFS depth %" PRId64, fn, o, k, i, j, out[i], d ? *d : -1);
                return;
            }
            for (int64_t i2 = lo; i2 < i; i2++)
                if (out[i2] == out[i]) {
                    vf_violation("duplicate", fn, key, "", "%s(%016" PRIx64 ", %d): ring %d repeats %016" PRIx64, fn, o, k, j, out[i]);
                    return;
                }
        }
    }
}

static void case_disk(H3Index o, int k) {
    vf_case("disk %016" PRIx64 " %d", o, k);
    uint64_t key = vf_mix(o) ^ vf_mix((uint64_t)k + 500);
    int res = VF_RES(o);
    H3Index *order = NULL;
    int64_t nball = vf_geo_bfs(o, k, &dist, &order);
    if (nball == -2) {
        vf_add("undecided.polar_adjacency", 1);
        return;
    }
    if (nball < 0) {
        vf_violation("error", "latLngToCell", key, "", "geometric BFS failed");
        return;
    }
    int64_t *sphere = calloc((size_t)k + 2, 8);
    int has_pent = 0;
    for (int64_t i = 0; i < nball; i++) {
        sphere[*vf_map_get(&dist, order[i])]++;
        if (ref_is_pentagon(order[i])) has_pent = 1;
    }
    if (!VF_GUARD()) {
        vf_assert_report("gridDisk", key);
        VF_UNGUARD();
        free(order);
        free(sphere);
        return;
    }
    int64_t sz = -1;
    if (maxGridDiskSize(k, &sz) || sz < nball)
        vf_violation("size", "maxGridDiskSize", key, "", "maxGridDiskSize(%d)=%" PRId64 " but the disk has %" PRId64 " cells", k, sz, nball);
    else {
        H3Index *out = vf_buf_new((size_t)sz * 8, 0);
        int *dd = vf_buf_new((size_t)sz * 4, 0);
        H3Error e;
        e = gridDisk(o, k, out);
        if (e) vf_violation("error", "gridDisk", key, "", "gridDisk(%016" PRIx64 ", %d) rc=%u", o, k, e);
        else judge_ball("gridDisk", o, k, key, out, NULL, sz, nball);
        memset(out, 0, (size_t)sz * 8);
        e = gridDiskDistances(o, k, out, dd);
        if (e) vf_violation("error", "gridDiskDistances", key, "", "rc=%u", e);
        else judge_ball("gridDiskDistances", o, k, key, out, dd, sz, nball);
        memset(out, 0, (size_t)sz * 8);
        memset(dd, 0, (size_t)sz * 4);
        e = gridDiskDistancesSafe(o, k, out, dd);
        if (e) vf_violation("error", "gridDiskDistancesSafe", key, "", "rc=%u", e);
        else judge_ball("gridDiskDistancesSafe", o, k, key, out, dd, sz, nball);
        /* unsafe family */
        memset(out, 0, (size_t)sz * 8);
        e = gridDiskUnsafe(o, k, out);
        judge_rings("gridDiskUnsafe", o, k, key, e, out, NULL, sphere);
        memset(out, 0, (size_t)sz * 8);
        memset(dd, 0, (size_t)sz * 4);
        e = gridDiskDistancesUnsafe(o, k, out, dd);
        judge_rings("gridDiskDistancesUnsafe", o, k, key, e, out, dd, sphere);
        H3Index *one = vf_buf_new(8, 0);
        one[0] = o;
        memset(out, 0, (size_t)sz * 8);
        e = gridDisksUnsafe(one, 1, k, out);
        judge_rings("gridDisksUnsafe", o, k, key, e, out, NULL, sphere);
        vf_buf_free(one);
        if (vf_buf_check(out) || vf_buf_check(dd)) vf_violation("overrun", "gridDisk", key, "", "canary damaged");
        vf_buf_free(out);
        vf_buf_free(dd);
        /* rings */
        for (int j = 0; j <= k; j++) {
            int64_t rs = j ? 6 * (int64_t)j : 1;
            H3Index *ring = vf_buf_new((size_t)rs * 8, 0);
            e = gridRingUnsafe(o, j, ring);
            vf_add("ring.calls", 1);
            if (!e) {
                vf_add("ring.successes", 1);
                if (sphere[j] != rs) {
                    /* same mechanism test as in wrap_rings (known finding F8) */
                    int enclosed = 0, onring = 0;
                    for (int64_t i = 0; i < nball; i++)
                        if (ref_is_pentagon(order[i]) && *vf_map_get(&dist, order[i]) < j) enclosed++;
                    for (int64_t i = 0; i < rs; i++)
                        if (ring[i] && ref_is_pentagon(ring[i])) onring = 1;
                    int f8 = !onring && enclosed >= 6;
                    vf_violation(f8 ? "ring-wrap" : "unsafe-not-flagged", "gridRingUnsafe", key ^ (uint64_t)j, f8 ? "ring-encloses-6plus-pentagons" : "",
                                 "gridRingUnsafe(%016" PRIx64 ", %d) succeeded but the ring has %" PRId64 " cells (%d pentagons inside, %s on the returned ring)", o, j, sphere[j], enclosed, onring ? "one" : "none");
                } else {
                    qsort(ring, (size_t)rs, 8, cmp_u64);
                    for (int64_t i = 0; i < rs; i++) {
                        int64_t *d = ring[i] ? vf_map_get(&dist, ring[i]) : NULL;
                        if (!d || *d != j || (i && ring[i] == ring[i - 1])) {
                            vf_violation("ring", "gridRingUnsafe", key, "", "gridRingUnsafe(%016" PRIx64 ", %d) returned %016" PRIx64 " (BFS depth %" PRId64 ")%s", o, j, ring[i],
                                         d ? *d : -1, (i && ring[i] == ring[i - 1]) ? " twice" : "");
                            break;
                        }
                    }
                }
            }
            vf_buf_free(ring);
        }
    }
    VF_UNGUARD();
    vf_add("disk.cases", 1);
    vf_add("disk.cells", nball);
    if (has_pent) vf_add("disk.with_pentagon", 1);
    if (k > 0) vf_distinct(key);
    vf_sample("disk %016" PRIx64 " k=%d: BFS ball %" PRId64 " cells (%s pentagon), safe family equal, unsafe family error-or-exact", o, k, nball, has_pent ? "contains a" : "no");
    free(order);
    free(sphere);
    (void)res;
}

/* k=1 facts, symmetry and the neighbour predicate around one origin */
static void case_neighbors(H3Index o, vf_rng *r) {
    vf_case("nbr %016" PRIx64, o);
    uint64_t key = vf_mix(o ^ 0x4E42);
    H3Index *order = NULL;
    int64_t nball = vf_geo_bfs(o, 2, &dist, &order);
    if (nball == -2) {
        vf_add("undecided.polar_adjacency", 1);
        return;
    }
    if (nball < 0) return;
    if (!VF_GUARD()) {
        vf_assert_report("areNeighborCells", key);
        VF_UNGUARD();
        free(order);
        return;
    }
    int n1 = 0;
    for (int64_t i = 0; i < nball; i++)
        if (*vf_map_get(&dist, order[i]) == 1) n1++;
    int want = ref_is_pentagon(o) ? 5 : 6;
    H3Index d1[7] = {0};
    H3Error e = gridDisk(o, 1, d1);
    int got = 0;
    for (int i = 0; i < 7; i++)
        if (d1[i] && d1[i] != o) {
            got++;
            int64_t *d = vf_map_get(&dist, d1[i]);
            if (!d || *d != 1) vf_violation("k1", "gridDisk", key, "", "gridDisk(%016" PRIx64 ",1) lists %016" PRIx64 " which is not a geometric neighbour", o, d1[i]);
            /* symmetry */
            H3Index back[7] = {0};
            int sym = 0;
            if (!gridDisk(d1[i], 1, back))
                for (int j = 0; j < 7; j++)
                    if (back[j] == o) sym = 1;
            if (!sym) vf_violation("asymmetric", "gridDisk", key, "", "%016" PRIx64 " lists %016" PRIx64 " as neighbour but not the reverse", o, d1[i]);
        }
    if (e || got != want || n1 != want)
        vf_violation("k1", "gridDisk", key, "", "gridDisk(%016" PRIx64 ",1) rc=%u gives %d neighbours, geometry gives %d, expected %d", o, e, got, n1, want);
    /* predicate on the whole 2-ball, on all siblings, on far and odd pairs */
    for (int64_t i = 0; i < nball; i++) {
        int out = -1;
        int64_t dd = *vf_map_get(&dist, order[i]);
        e = areNeighborCells(o, order[i], &out);
        vf_add("pred.pairs", 1);
        if (e || out != (dd == 1))
            vf_violation("predicate", "areNeighborCells", key ^ vf_mix(order[i]), "", "areNeighborCells(%016" PRIx64 ", %016" PRIx64 ") rc=%u out=%d, graph distance %" PRId64, o, order[i], e, out, dd);
        out = -1;
        e = areNeighborCells(order[i], o, &out);
        if (e || out != (dd == 1))
            vf_violation("predicate", "areNeighborCells", key ^ vf_mix(order[i]) ^ 1, "", "areNeighborCells(%016" PRIx64 ", %016" PRIx64 ") rc=%u out=%d, graph distance %" PRId64, order[i], o, e, out, dd);
    }
    int res = VF_RES(o);
    if (res > 0) {
        H3Index par = ref_parent(o, res - 1);
        ref_child_iter it;
        for (ref_child_iter_init(&it, par, res); !it.done; ref_child_iter_next(&it)) {
            int out = -1;
            int64_t *dd = vf_map_get(&dist, it.h);
            int isn = dd && *dd == 1;
            e = areNeighborCells(o, it.h, &out);
            vf_add("pred.sibling_pairs", 1);
            if (e || out != isn)
                vf_violation("predicate", "areNeighborCells", key ^ vf_mix(it.h) ^ 2, "", "siblings: areNeighborCells(%016" PRIx64 ", %016" PRIx64 ") rc=%u out=%d, geometric adjacency %d", o, it.h, e, out, isn);
        }
    }
    for (int t = 0; t < 4; t++) {
        H3Index far = vf_rand_cell(r, res);
        if (vf_map_get(&dist, far)) continue;
        int out = -1;
        e = areNeighborCells(o, far, &out);
        vf_add("pred.far_pairs", 1);
        if (e || out != 0) vf_violation("predicate", "areNeighborCells", key ^ vf_mix(far) ^ 3, "", "far pair (%016" PRIx64 ", %016" PRIx64 ") rc=%u out=%d", o, far, e, out);
    }
    /* far cells that look alike digit-wise: the same digits on another base cell; the same tail under different leading digits;
     * the same digits with only the last one changed on another base cell (a "sibling" by its low bits).  A predicate that
     * compares truncated or masked indexes takes these for siblings. */
    {
        H3Index cand[8];
        int nc = 0;
        int bc = (int)((o >> 45) & 127);
        for (int t = 0; t < 3; t++) {
            int bc2 = (bc + 1 + (int)vf_below(r, 121)) % 122;
            if (t == 1) bc2 = (bc + 32) % 122; /* differs in one high bit of the base-cell field */
            if (t == 2) bc2 = (bc + 4 * (1 + (int)vf_below(r, 20))) % 122;
            H3Index c = (o & ~((uint64_t)127 << 45)) | ((uint64_t)bc2 << 45);
            cand[nc++] = c;
            if (res > 0) cand[nc++] = vf_set_digit(c, res, (int)vf_below(r, 7));
        }
        if (res >= 3) {
            H3Index c = o;
            int keep = 1 + (int)vf_below(r, (uint64_t)(res - 1)); /* keep the last `keep` digits */
            for (int q = 1; q <= res - keep; q++) c = vf_set_digit(c, q, (int)vf_below(r, 7));
            cand[nc++] = c;
            cand[nc++] = vf_set_digit(c, res, (int)vf_below(r, 7));
        }
        LatLng go;
        vf_cell OC;
        if (!cellToLatLng(o, &go) && !vf_cell_load(o, &OC))
            for (int t = 0; t < nc; t++) {
                LatLng gc;
                if (!ref_is_valid_cell(cand[t]) || cand[t] == o || vf_map_get(&dist, cand[t]) || cellToLatLng(cand[t], &gc)) continue;
                if (v3_angle(v3_from_ll(go), v3_from_ll(gc)) < 4 * OC.width) continue; /* only clearly distant cells are judged here */
                for (int dir = 0; dir < 2; dir++) {
                    int out = -1;
                    e = dir ? areNeighborCells(cand[t], o, &out) : areNeighborCells(o, cand[t], &out);
                    vf_add("pred.structured_far_pairs", 1);
                    if (e || out != 0)
                        vf_violation("predicate", "areNeighborCells", key ^ vf_mix(cand[t]) ^ 4, "", "areNeighborCells(%016" PRIx64 ", %016" PRIx64 ") rc=%u out=%d for cells whose centres are more than 4 cell widths apart", dir ? cand[t] : o, dir ? o : cand[t], e, out);
                }
            }
    }
    VF_UNGUARD();
    vf_add("nbr.cases", 1);
    vf_distinct(key);
    free(order);
}

/* several origins at once */
static void case_disks(H3Index o, int k, vf_rng *r) {
    vf_case("disks %016" PRIx64 " %d", o, k);
    uint64_t key = vf_mix(o ^ 0xD15C5) ^ vf_mix((uint64_t)k);
    H3Index origins[3] = {o, 0, 0};
    H3Index nb[MAX_CELL_BNDRY_VERTS];
    int m = vf_geo_neighbors_cached(o, nb), n = 1;
    (void)r;
    if (m >= 2) {
        origins[1] = nb[0];
        origins[2] = nb[m - 1];
        n = 3;
    }
    int64_t sz = maxdisk(k);
    H3Index *in = vf_buf_new((size_t)n * 8, 0);
    memcpy(in, origins, (size_t)n * 8);
    H3Index *out = vf_buf_new((size_t)(sz * n) * 8, 0);
    if (!VF_GUARD()) {
        vf_assert_report("gridDisksUnsafe", key);
        VF_UNGUARD();
        return;
    }
    H3Error e = gridDisksUnsafe(in, n, k, out);
    VF_UNGUARD();
    vf_add("disks.cases", 1);
    if (!e) {
        for (int q = 0; q < n; q++) {
            H3Index *order = NULL;
            int64_t nball = vf_geo_bfs(origins[q], k, &dist, &order);
            free(order);
            if (nball < 0) break;
            int64_t *sphere = calloc((size_t)k + 2, 8);
            for (size_t i = 0; i < dist.cap; i++)
                if (dist.k[i]) sphere[dist.v[i]]++;
            judge_rings("gridDisksUnsafe", origins[q], k, key, 0, out + q * sz, NULL, sphere);
            free(sphere);
        }
    } else
        vf_add("unsafe.errors", 1);
    if (vf_buf_check(out)) vf_violation("overrun", "gridDisksUnsafe", key, "", "canary damaged");
    vf_buf_free(in);
    vf_buf_free(out);
}

/* rings (and unsafe disks) of every radius up to one that wraps the globe, against whole-resolution BFS */
static void wrap_rings(int res, int kmax, int stride) {
    vf_resgraph g;
    vf_case("wrapgraph %d", res);
    if (vf_resgraph_build(&g, res)) {
        vf_violation("error", "latLngToCell", (uint64_t)res, "", "cannot build the adjacency graph of res %d", res);
        return;
    }
    int16_t *d = malloc((size_t)g.n * 2);
    int32_t *q = malloc((size_t)g.n * 4);
    int64_t *sph = malloc(((size_t)kmax + 2) * 8), *ball = malloc(((size_t)kmax + 2) * 8);
    int *pent_at = malloc(((size_t)kmax + 2) * sizeof(int));
    for (int32_t i = 0; i < g.n; i++) {
        if (i % stride || !VF_MINE(i / stride)) continue;
        vf_resgraph_bfs(&g, i, d, q);
        memset(sph, 0, ((size_t)kmax + 2) * 8);
        memset(pent_at, 0, ((size_t)kmax + 2) * sizeof(int));
        for (int32_t j = 0; j < g.n; j++)
            if (d[j] >= 0 && d[j] <= kmax) {
                sph[d[j]]++;
                if (ref_is_pentagon(g.cells[j])) pent_at[d[j]]++;
            }
        ball[0] = sph[0];
        for (int k = 1; k <= kmax; k++) ball[k] = ball[k - 1] + sph[k];
        H3Index o = g.cells[i];
        if (!VF_GUARD()) {
            vf_assert_report("gridRingUnsafe", o);
            VF_UNGUARD();
            continue;
        }
        for (int k = 1; k <= kmax; k++) {
            vf_case("wrapring %016" PRIx64 " %d", o, k);
            uint64_t key = vf_mix(o) ^ vf_mix((uint64_t)k + 0x3141);
            int64_t rs = 6 * (int64_t)k;
            H3Index *ring = vf_buf_new((size_t)rs * 8, 0);
            H3Error e = gridRingUnsafe(o, k, ring);
            vf_add("wrapring.calls", 1);
            if (vf_buf_check(ring)) vf_violation("overrun", "gridRingUnsafe", key, "", "canary damaged (k=%d)", k);
            if (!e) {
                vf_add("wrapring.successes", 1);
                int ok = sph[k] == rs;
                H3Index badcell = 0;
                if (ok) {
                    qsort(ring, (size_t)rs, 8, cmp_u64);
                    for (int64_t t = 0; t < rs && ok; t++) {
                        int64_t *ix = vf_map_get(&g.index, ring[t]);
                        if (!ix || d[*ix] != k || (t && ring[t] == ring[t - 1])) {
                            ok = 0;
                            badcell = ring[t];
                        }
                    }
                }
                if (!ok) {
                    /* F8 signature (known_findings.json): no returned cell is a pentagon, but the disk inside the ring holds
                     * six or more of them.  Each enclosed pentagon turns the hexagonal walk by 60 degrees; with six the
                     * turns add up to a full one and the walk can close on its start cell, so neither the per-cell pentagon
                     * test nor the closure test fires.  (Measured on every origin of res 0-2 and 1/40 of res 3: all 17 793
                     * wrong successes enclose >= 6 pentagons; none encloses fewer.) */
                    int enclosed = 0, onring = 0;
                    for (int t = 0; t < k; t++) enclosed += pent_at[t];
                    for (int64_t t = 0; t < rs; t++)
                        if (ring[t] && ref_is_pentagon(ring[t])) onring = 1;
                    const char *sig = (!onring && enclosed >= 6) ? "ring-encloses-6plus-pentagons" : "";
                    vf_violation("ring-wrap", "gridRingUnsafe", key, sig,
                                 "gridRingUnsafe(%016" PRIx64 ", %d) succeeded but the cells at graph distance %d number %" PRId64 " (a hexagonal ring has %" PRId64 ")%s; ball of that radius: %" PRId64 " of %d cells, %d pentagon(s) inside, %d on the ring",
                                 o, k, k, sph[k], rs, badcell ? " / a returned cell is not at that distance" : "", ball[k], g.n, enclosed, pent_at[k]);
                }
            }
            vf_buf_free(ring);
            if (2 * ball[k] > g.n) vf_add("wrapring.radius_wraps_half_globe", 1);
            vf_distinct(key);
        }
        VF_UNGUARD();
        vf_add("wrapring.origins", 1);
    }
    free(d);
    free(q);
    free(sph);
    free(ball);
    free(pent_at);
    free(g.cells);
    free(g.adj);
    vf_map_free(&g.index);
}

static void witness_f8(void) {
    H3Index ring[84] = {0};
    vf_case("wrapring 081003ffffffffff 14");
    H3Error e = gridRingUnsafe(0x81003ffffffffffULL, 14, ring);
    int dup = 0;
    qsort(ring, 84, 8, cmp_u64);
    for (int i = 1; i < 84; i++)
        if (ring[i] == ring[i - 1]) dup++;
    vf_witness("F8", e == 0, "gridRingUnsafe(81003ffffffffff, 14) at res 1: rc=%u (%d repeated cells among the 84 slots; only 51 cells are at graph distance 14)", e, dup);
}

static int KQ;
static void on_cell(uint64_t h, int64_t idx, void *u) {
    vf_rng *r = u;
    (void)idx;
    for (int k = 0; k <= KQ; k++) case_disk(h, k);
    case_neighbors(h, r);
}

static void run(void) {
    vf_rng r;
    vf_rng_stream(&r, 5);
    vf_map_init(&dist, 4096);
    int64_t idx = 0;
    /* whole coarse resolutions, k <= 3 */
    KQ = 3;
    for (int res = 0; res <= VF_T(4, 5); res++) ref_enum_res(res, 1, on_cell, &r);
    /* pentagon neighbourhoods and seams at every resolution, k <= 8 */
    H3Index seeds[600];
    int64_t sz8;
    maxGridDiskSize(8, &sz8);
    H3Index *d = vf_buf_new((size_t)sz8 * 8, 0);
    for (int res = 0; res <= 15; res++) {
        int n = vf_special_seeds(res, VF_T(2, 6), seeds, 600);
        for (int i = 0; i < n; i++) {
            if (!VF_MINE(idx++)) continue;
            if (i < 12) {
                /* every cell within R of the pentagon, each with k up to 8 */
                int R = VF_T(4, 8);
                memset(d, 0, (size_t)sz8 * 8);
                if (gridDisk(seeds[i], R, d)) continue;
                for (int64_t j = 0; j < maxdisk(R); j++)
                    if (d[j]) {
                        int k = 1 + (int)vf_below(&r, 8);
                        case_disk(d[j], k);
                        if (vf_below(&r, 4) == 0) case_neighbors(d[j], &r);
                        if (vf_below(&r, 8) == 0) case_disks(d[j], 1 + (int)vf_below(&r, 4), &r);
                    }
                case_disk(seeds[i], 8);
                case_neighbors(seeds[i], &r);
            } else {
                case_disk(seeds[i], 1 + (int)vf_below(&r, 8));
                case_neighbors(seeds[i], &r);
                case_disks(seeds[i], 1 + (int)vf_below(&r, 3), &r);
            }
        }
        int nr = VF_T(20, 300);
        for (int i = 0; i < nr; i++) {
            H3Index h = vf_rand_cell(&r, res);
            case_disk(h, res >= 6 ? (int)vf_below(&r, VF_T(16, 31)) : (int)vf_below(&r, 6));
            case_neighbors(h, &r);
        }
    }
    /* wedge seams inside the pentagon base cells (round 9, W9_C05): the descendants of a pentagon whose first non-zero digit
     * is 5 (IK) and those whose first non-zero digit is 3 (JK) meet along the seam left by the deleted K wedge; stepping across
     * it re-rotates the index by its *leading* digit, which for a fine cell with the leading digit at level L sits up to
     * fourteen digits above the finest one.  Pentagon neighbourhoods only reach L = res (seam next to the pentagon); here the
     * leading digit is placed at every level L < res and the seam is located by bisection between the centres of the two res-L
     * cells (p,0..0,5) and (p,0..0,3) (and of one other pair of adjacent wedges). */
    for (int res = 2; res <= 15; res++)
        for (int kp = 0; kp < 12; kp++) {
            if (!VF.thorough && (kp + res) % 4) continue;
            for (int L = 1; L < res; L++)
                for (int pair = 0; pair < 2; pair++) {
                    if (!VF_MINE(idx++)) continue;
                    static const int PAIRS[5][2] = {{5, 3}, {2, 3}, {2, 6}, {4, 6}, {4, 5}};
                    const int *pp = PAIRS[pair ? 1 + (res + L + kp) % 4 : 0];
                    int dg[15] = {0};
                    dg[L - 1] = pp[0];
                    H3Index A = vf_make_cell(L, REF_PENT_BC[kp], dg);
                    dg[L - 1] = pp[1];
                    H3Index B = vf_make_cell(L, REF_PENT_BC[kp], dg);
                    vf_cell ca, cb;
                    if (vf_cell_load(A, &ca) || vf_cell_load(B, &cb)) continue;
                    ld lo = 0, hi = 1;
                    H3Index hlo = 0, hhi = 0, h, anc;
                    for (int it = 0; it < 64; it++) {
                        ld t = 0.5L * (lo + hi);
                        LatLng g = v3_to_ll(v3_norm(v3_add(v3_scale(ca.c, 1 - t), v3_scale(cb.c, t))));
                        if (latLngToCell(&g, res, &h) || cellToParent(h, L, &anc)) break;
                        if (anc == A) lo = t, hlo = h;
                        else hi = t, hhi = h;
                    }
                    H3Index two[2] = {hlo, hhi};
                    for (int q = 0; q < 2; q++)
                        if (two[q] && ref_is_valid_cell(two[q])) {
                            case_disk(two[q], 1 + (int)vf_below(&r, 3));
                            case_neighbors(two[q], &r);
                            vf_add("disk.pentagon_wedge_seam_cells", 1);
                            if (res - L >= 10) vf_add("disk.pentagon_wedge_seam_cells_leading_digit_ten_levels_up", 1);
                        }
                }
        }
    vf_buf_free(d);
    /* rings of every radius up to globe-wrapping ones, every origin of res 0-1, a share of res 2 */
    if (VF.shard == 0) witness_f8();
    wrap_rings(0, 14, 1);
    wrap_rings(1, 30, VF_T(2, 1));
    wrap_rings(2, 50, VF_T(60, 6));
    /* disks that reach the antipode and cover the whole globe: every origin of res 0 and (quick: every second one) of res 1,
     * a sample of res 2.  A search that prunes directions is right on the plane and can still miss the last cell on the sphere. */
    {
        ref_child_iter it;
        int zero[15] = {0};
        int64_t n1 = 0;
        for (int bc = 0; bc < 122; bc++) {
            H3Index b0 = vf_make_cell(0, bc, zero);
            if (VF_MINE(idx++)) {
                case_disk(b0, 10 + bc % 3);
                case_disk(b0, 13);
                vf_add("disk.covers_globe", 2);
            }
            for (ref_child_iter_init(&it, b0, 1); !it.done; ref_child_iter_next(&it), n1++) {
                if ((!VF.thorough && (n1 & 1) && !ref_is_pentagon(it.h)) || !VF_MINE(idx++)) continue;
                case_disk(it.h, 26 + (int)(n1 % 4));
                vf_add("disk.covers_globe", 1);
            }
        }
        int n2 = VF_T(16, 160);
        for (int i = 0; i < n2; i++)
            if (VF_MINE(idx++)) {
                H3Index h = i < 12 ? vf_make_cell(2, REF_PENT_BC[i], zero) : vf_rand_cell(&r, 2);
                case_disk(h, 66 + (int)vf_below(&r, 6));
                vf_add("disk.covers_globe", 1);
            }
    }
    /* every radius once: k = 0 .. 64 (thorough 0 .. 140) on a dense fine-resolution disk far from any pentagon (the fast path,
     * and the safe variant called directly) and on a disk that has a pentagon inside (origin about k/2 steps from it: gridDisk and
     * gridDiskDistances fall back to the safe search).  The output array doubles as a hash set of 3k(k+1)+1 slots: a probing
     * scheme can be wrong for particular k only. */
    {
        int kmax = VF_T(64, 140);
        for (int k = 0; k <= kmax; k++) {
            if (VF_MINE(idx++)) {
                case_disk(vf_rand_cell(&r, 7 + (int)vf_below(&r, 9)), k);
                vf_add("disk.k_sweep", 1);
            }
            if (VF_MINE(idx++)) {
                int res = 5 + (int)vf_below(&r, 8);
                H3Index p = vf_make_cell(res, REF_PENT_BC[vf_below(&r, 12)], (int[15]){0}), o = p;
                int64_t szr;
                int kr = k / 2 > 0 ? k / 2 : 1;
                maxGridDiskSize(kr, &szr);
                H3Index *ring = calloc((size_t)szr, 8);
                if (!gridDisk(p, kr, ring)) {
                    for (int t = 0; t < 50; t++) {
                        H3Index c = ring[vf_below(&r, (uint64_t)szr)];
                        if (c) {
                            o = c;
                            break;
                        }
                    }
                }
                free(ring);
                case_disk(o, k);
                vf_add("disk.k_sweep_pentagon_inside", 1);
            }
        }
    }
    /* disks that wrap the globe at the coarsest resolutions */
    static const int KW[3] = {12, 25, 45};
    for (int res = 0; res <= 2; res++) {
        int nw = VF_T(6, 40);
        for (int i = 0; i < nw; i++)
            if (VF_MINE(idx++)) {
                H3Index h = i < 12 ? vf_make_cell(res, REF_PENT_BC[i % 12], (int[15]){0}) : vf_rand_cell(&r, res);
                case_disk(h, (i & 1) ? KW[res] : KW[res] / 2 + (int)vf_below(&r, (uint64_t)KW[res] / 2));
                vf_add("disk.wrapping", 1);
            }
    }
}
static void replay(const char *spec) {
    uint64_t h;
    int k;
    vf_rng r;
    vf_rng_seed(&r, 1);
    vf_map_init(&dist, 4096);
    if (sscanf(spec, "disk %" SCNx64 " %d", &h, &k) == 2)
        case_disk(h, k);
    else if (sscanf(spec, "nbr %" SCNx64, &h) == 1)
        case_neighbors(h, &r);
    else if (sscanf(spec, "disks %" SCNx64 " %d", &h, &k) == 2)
        case_disks(h, k, &r);
    else if (sscanf(spec, "wrapring %" SCNx64 " %d", &h, &k) == 2) {
        VF.nshards = 1;
        VF.shard = 0;
        wrap_rings(VF_RES(h), k, 1); /* all origins of that resolution up to that radius: the spec's origin is among them */
    }
    else
        vf_fatal("bad replay spec: %s", spec);
}
int main(int argc, char **argv) { return vf_main(argc, argv, "C05", run, replay); }
