"""Per-property metadata of the driver: what to build, how to run it, what the
evidence must contain.  (The deciding logic lives in the C monitors.)"""

KIT = ["vf_kit.c"]
HOOK_COMMITS = []
NOT_APPLICABLE = {}


def simple(mon, config="asan", **kw):
    d = {"name": "main", "config": config}
    d.update(kw)
    return [d]


PROPS = {
    "C01": {
        "sources": KIT + ["mon_C01.c"],
        "phases": [{"name": "main", "config": "plain"}, {"name": "closure", "config": "asan"}],
        "level": "exploration",
        "level_text": "Differential execution of the real isValidCell against a predicate written from the documented bit layout: exhaustive over all 2^19 "
                      "settings of the top 19 bits (x ~200 digit strings each) and over every 8^5 assignment of every window of five neighbouring digit "
                      "positions for every resolution and base-cell class, plus bit-flipped valid cells and uniform values (1e9 quick / 1e10 thorough "
                      "evaluations). This is not the symbolic all-2^64 decision the quantifier asks for: a fault that needs four or more specific "
                      "non-adjacent digit positions under one base cell can escape. Closure clause: every cell any API returns in this and all other "
                      "monitors passes through the same reference predicate.",
        "level_note": "Trusted base: the 40-line reference predicate transcribed from website/docs/library/index/cell.md and the list of twelve pentagon base cells "
                      "(cross-checked against getPentagons in C03).",
        "technique": "runtime monitoring: differential execution against a documentation-derived reference predicate over a structured exhaustive enumeration, outputs of all APIs monitored for validity under ASan/UBSan",
        "evaluations": ["evaluations"],
        "rule": "cases are 64-bit values; strata: (a) all 2^19 top-19-bit settings x ~200 digit strings, (b) all 8^5 assignments of each 5-digit window per "
                "resolution x base cell class x 6 fills, (c) valid cells with 1-3 flipped bits, (d) uniform/hostile values. Non-trivial = reference-valid, or "
                "invalid for exactly one clause of the layout (single fault); distinct by value. Window stratum is sampled 1/64 into the distinct set; the "
                "set saturates at 2M values per worker (distinct_saturated) so the count is a lower bound.",
        "require": {"evaluations": {"quick": 500000000, "thorough": 4000000000}, "ref_valid": 1000000, "single_fault_invalid": 1000000,
                    "closure.cells": 100, "outcells.gridDisk": 100, "outcells.polygonToCellsExperimental": 100},
        "exhaustive_note": "exhaustive in the top 19 bits and in every 5-digit window; not exhaustive over 2^64",
        "assumptions": ["reference predicate equals the documented layout", "faults needing >=4 specific non-adjacent digit positions under one base cell are not excluded"],
    },
    "C20": {
        "sources": KIT + ["mon_C20.c"],
        "phases": simple("mon_C20.c"),
        "level": "exploration",
        "level_text": "Held on every (value, buffer size) and byte-string case executed: structured enumeration of bit positions, digit counts and "
                      "sizes 0..32 plus millions of random/hostile values, under ASan+UBSan with exact-size buffers. Not all 2^64 values; sprintf/sscanf "
                      "have no value-dependent branches beyond digit count, which is enumerated completely.",
        "level_note": "Trusts glibc sscanf/sprintf and ASan red zones; input shapes the statement is silent on are observed only.",
        "technique": "runtime monitoring: differential execution against an independent hex formatter under ASan/UBSan with guarded exact-size buffers",
        "evaluations": ["tostr.calls", "parse.calls"],
        "rule": "h3ToString cases are (value, buffer size) pairs: every single-bit value, 0 and ~0 at every size 0..32; every hex digit count "
                "1..16 with random tails at sizes {0,1,15,16,17,18,31,32,random}; all values 0..0xFFFF; cells/edges/vertexes produced by the "
                "library; hostile and uniform 64-bit values. stringToH3 cases are byte strings: every string of length <=2 and random strings "
                "<=20 bytes. A case is counted as non-trivial when it is judged (tostr: always; parse: canonical-hex or non-hex-start shape) "
                "and distinct by hash of (value,size) resp. of the bytes.",
        "require": {"tostr.small": 100, "tostr.fit": 1000, "roundtrip": 1000, "parse.nonhex": 1000, "parse.canonical": 100,
                    "roundtrip.16digit_or_highbit": 10},
        "assumptions": ["glibc sscanf/sprintf behave per C standard", "ASan red zones / canaries detect writes next to the exact-size buffer",
                        "shapes the statement does not cover (sign, whitespace, 0x, padding, upper case, >16 digits, trailing junk) are observed, not judged"],
    },
}
