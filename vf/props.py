"""Per-property metadata of the driver: what to build, how to run it, what the
evidence must contain.  (The deciding logic lives in the C monitors.)"""

KIT = ["vf_kit.c"]
HOOK_COMMITS = ["293245019aab00eb22a1128a34c20e0120c9bf0d"]
NOT_APPLICABLE = {}


def simple(mon, config="asan", **kw):
    d = {"name": "main", "config": config}
    d.update(kw)
    return [d]


def post_C08(stats, tier):
    """close the per-resolution area sums: sum of cellAreaRads2 (and of the oracle areas) over a whole resolution = 4*pi within 1e-9"""
    import math
    out = []
    Q = float(2 ** 60)
    for res in range(16):
        k = "areacount.res%02d" % res
        if k not in stats:
            continue
        n = stats[k]
        want = 2 + 120 * 7 ** res
        if n != want:
            out.append({"kind": "sum-incomplete", "fn": "cellAreaRads2", "key": "areacount%02d" % res,
                        "detail": "res %d: %d cells contributed to the area sum, expected %d" % (res, n, want)})
            continue
        for which in ("lib", "ref"):
            ssum = stats["areasum_%s_q60.res%02d" % (which, res)] / Q
            stats["areasum_minus_4pi_%s.res%02d.e-15" % (which, res)] = int(round((ssum - 4 * math.pi) * 1e15))
            if abs(ssum - 4 * math.pi) > 1e-9:
                out.append({"kind": "area-sum", "fn": "cellAreaRads2" if which == "lib" else "cellToBoundary", "key": "areasum%s%02d" % (which, res),
                            "detail": "res %d: sum of %s over all %d cells = %.15g, 4*pi = %.15g" % (
                                res, "cellAreaRads2" if which == "lib" else "areas enclosed by cellToBoundary", n, ssum, 4 * math.pi)})
    return out


def post_C11(stats, tier):
    """global count identity: a resolution with N cells has exactly 2N-4 distinct vertexes. Every vertex index names exactly one cell
    (its owner bits); the monitor counts, per cell, the slots whose index names that cell. Since the three cells around a corner are
    checked to produce one identical index, the sum over all cells is the number of distinct vertexes."""
    out = []
    for res in range(16):
        k = "wholecells.res%02d" % res
        if k not in stats:
            continue
        n = stats[k]
        N = 2 + 120 * 7 ** res
        if n != N:
            # polar cells below coordinate resolution are undecided only at res >= 14; here every cell must have been judged
            out.append({"kind": "count-incomplete", "fn": "cellToVertexes", "key": "vcount%02d" % res, "detail": "res %d: %d of %d cells judged" % (res, n, N)})
            continue
        got = stats.get("owned.res%02d" % res, 0)
        stats["distinct_vertexes.res%02d" % res] = got
        if got != 2 * N - 4:
            out.append({"kind": "vertex-count", "fn": "cellToVertexes", "key": "vcount%02d" % res,
                        "detail": "res %d: %d distinct vertex indexes over %d cells, expected 2N-4 = %d" % (res, got, N, 2 * N - 4)})
    return out


def post_C01(stats, tier):
    """closure clause: every cell any API returned in the *other* monitors went through the same reference predicate
    (vf_out_cell); their per-API counts from the latest evidence files are folded into C01's evidence (a violation there
    is reported by that monitor, kind invalid-output)."""
    import glob, json, os
    here = os.path.dirname(os.path.dirname(os.path.abspath(__file__)))
    total = 0
    for f in sorted(glob.glob(os.path.join(here, "evidence", "C*.json"))):
        if f.endswith("C01.json"):
            continue
        try:
            c = json.load(open(f))["coverage"]["counters"]
        except Exception:
            continue
        for k, v in c.items():
            if k.startswith("outcells."):
                stats["closure_other_checks." + k[9:]] = stats.get("closure_other_checks." + k[9:], 0) + v
                total += v
    stats["closure_other_checks.total_cells_validated"] = total
    return []


PROPS = {
    "C01": {
        "sources": KIT + ["mon_C01.c"],
        "phases": [{"name": "main", "config": "plain"}, {"name": "closure", "config": "asan"}],
        "post": post_C01,
        "level": "exploration",
        "level_text": "Differential execution of the real isValidCell against a predicate written from the documented bit layout: exhaustive over all 2^19 "
                      "settings of the top 19 bits (x ~200 digit strings each) and over every 8^5 assignment of every window of five neighbouring digit "
                      "positions for every resolution and base-cell class, plus bit-flipped valid cells and uniform values (1e9 quick / 1e10 thorough "
                      "evaluations). This is not the symbolic all-2^64 decision the quantifier asks for: a fault that needs four or more specific "
                      "non-adjacent digit positions under one base cell can escape. Closure clause: every cell any API returns in this and all other "
                      "monitors passes through the same reference predicate.",
        "level_note": "Trusted base: the 40-line reference predicate transcribed from website/docs/library/index/cell.md and the list of twelve pentagon base cells "
                      "(cross-checked against getPentagons in C03).",
        "technique": "runtime monitoring: differential execution against a documentation-derived reference predicate over a structured exhaustive enumeration, outputs of all APIs monitored for validity under ASan/UBSan",
        "evaluations": ["evaluations"],
        "rule": "cases are 64-bit values; strata: (a) all 2^19 top-19-bit settings x ~200 digit strings, (b) all 8^5 assignments of each 5-digit window per "
                "resolution x base cell class x 6 fills, (c) valid cells with 1-3 flipped bits, (d) uniform/hostile values. Non-trivial = reference-valid, or "
                "invalid for exactly one clause of the layout (single fault); distinct by value. Window stratum is sampled 1/64 into the distinct set; the "
                "set saturates at 2M values per worker (distinct_saturated) so the count is a lower bound.",
        "require": {"evaluations": {"quick": 500000000, "thorough": 4000000000}, "ref_valid": 1000000, "single_fault_invalid": 1000000,
                    "closure.cells": 100, "outcells.gridDisk": 100, "outcells.polygonToCellsExperimental": 100, "closure.families_eight_levels_deep": 2},
        "exhaustive_note": "exhaustive in the top 19 bits and in every 5-digit window; not exhaustive over 2^64",
        "assumptions": ["reference predicate equals the documented layout", "faults needing >=4 specific non-adjacent digit positions under one base cell are not excluded"],
    },
    "C02": {
        "sources": KIT + ["mon_C02.c"],
        "phases": simple("mon_C02.c"),
        "level": "exploration",
        "level_text": "Every returned cell is judged geometrically (gnomonic crossing-number containment of the point in cellToBoundary, angular distance when outside, the property's own tolerance) "
                      "for adversarial points: 1e-1..1e-12 cell widths on both sides of every boundary segment at 5 parameters and around every vertex of cells in all special "
                      "neighbourhoods (12 pentagons, 30 icosahedron edges, 20 face centres, poles, antimeridian) and random cells at all 16 resolutions; points on/next to icosahedron "
                      "edges and vertices; latitudes pi/2-10^-k and longitudes +-pi-+10^-k, +-2pi; uniform points; arbitrary finite / non-finite doubles and bad resolutions. Sampled, "
                      "not all doubles.",
        "level_note": "Trusted base: long-double spherical geometry of the oracle (vf_kit.c); cellToBoundary/cellToLatLng outputs define the cell (their mutual consistency is C08's business).",
        "technique": "runtime monitoring: geometric containment oracle (gnomonic chart, long double) over adversarially placed points, under ASan/UBSan",
        "evaluations": ["points.judged_containment", "points.arbitrary_finite", "points.rejected"],
        "rule": "a case is one (lat, lng, res) triple. Non-trivial = canonical-range point closer than 1e-3 cell widths to the returned cell's boundary, or a rejected (non-finite / bad resolution) "
                "input; distinct by hash of the two doubles' bits and the resolution.",
        "require": {"points.judged_containment": {"quick": 1000000, "thorough": 20000000}, "points.near_boundary": 500000, "points.rejected": 1000, "points.arbitrary_finite": 1000, "cells.around": 1000},
        "assumptions": ["cellToBoundary vertices joined by great-circle arcs are the cell (as the property states)", "tolerance exactly as stated in the property"],
    },
    "C03": {
        "sources": KIT + ["mon_C03.c"],
        "phases": [{"name": "main", "config": "plain"}, {"name": "san", "config": "asan"}],
        "level": "exploration",
        "level_text": "Every spec-valid cell of resolutions 0-5 (quick) / 0-7 (thorough, 98.8M cells at res 7) is produced by an enumerator written from the documented "
                      "layout and pushed through cellToLatLng -> latLngToCell; the number enumerated is compared with getNumCells and the closed form; pentagon and "
                      "res-0 lists are compared with reference lists at all 16 resolutions. Finer resolutions are covered completely only within 6 steps of the "
                      "twelve pentagons and around icosahedron edges / face centres / poles / antimeridian, on every cell with one or two non-zero digits (all positions, all digit values, res 1-15) "
                      "under the twelve pentagon and six hexagon base cells, and by stratified random cells, under ASan+UBSan.",
        "level_note": "Trusted base: the reference enumerator (digit counting with the pentagon skip rule) and the documented pentagon base cell list.",
        "technique": "runtime monitoring: complete enumeration of coarse resolutions from a documentation-derived enumerator, round-trip identity and count oracles, sanitizers on the special neighbourhoods",
        "evaluations": ["roundtrips"],
        "rule": "a case is one valid cell (centre round trip + 45 single-digit perturbations of it through isValidCell); cells come from the reference enumerator "
                "(whole resolutions), gridDisk(6) around the 12 pentagons and gridDisk(2) around icosahedron-edge/face-centre/pole/antimeridian seeds at "
                "res 0-15, and stratified random cells. Non-trivial = every valid cell; distinct by cell index (whole-resolution sweeps beyond the perturbation "
                "depth are sampled 1/1024 into the distinct set).",
        "require": {"roundtrips": {"quick": 2000000, "thorough": 100000000}, "whole_resolutions": {"quick": 6, "thorough": 8}, "special.cells": 10000, "counts.res_checked": 16, "sparse.cells": 300000, "footprint_tip.cells": 30000},
        "exhaustive": True,
        "exhaustive_note": "exhaustive for resolutions 0-5 (quick) / 0-7 (thorough); sampled beyond",
        "assumptions": ["reference enumerator equals the documented layout", "resolutions finer than the exhaustive ones are covered near pentagons/face edges/poles/antimeridian and by sampling only"],
    },
    "C04": {
        "sources": KIT + ["mon_C04.c"],
        "phases": simple("mon_C04.c"),
        "level": "exploration",
        "level_text": "cellToChildren output is compared element-wise with an independent enumerator for every cell of resolutions 0-2 at several depths, every pentagon of every "
                      "resolution at every depth that fits the cap, pentagon children that leave the centre chain at every level and random hexagons at all resolutions; every "
                      "child is sent back through cellToParent; the converse (membership at the reference rank under every ancestor) is checked for sampled cells down to res 15. "
                      "ASan+UBSan with exact-size child arrays. Families too deep to list (10-15 levels): the library's own child iterator, calibrated in-process on shallow families, is placed on a "
                      "reference child and stepped (carries through 0-15 digits, counted per digit run); skipped and counted if the iterator is not observable. Not all (cell, childRes) pairs.",
        "level_note": "Trusted base: reference child enumerator/rank (vf_kit.c). Centre coincidence uses C02's tolerance.",
        "technique": "runtime monitoring: element-wise comparison with a documentation-derived child enumerator under ASan/UBSan with exact-size buffers",
        "evaluations": ["children.cases", "ancestor.pairs", "errors.calls", "sizeonly.cases", "jump.cases"],
        "rule": "cases: (cell, childRes) child lists, (cell -> every ancestor) membership chains, (cell, hostile resolution) error codes, (parent, childRes, position) iterator steps. Non-trivial = child list with >1 child, or a chain "
                "from a cell of res>0; distinct by hash of (cell, childRes).",
        "require": {"children.cases": 5000, "children.cells": 1000000, "ancestor.pairs": 10000, "errors.rejected": 1000, "sizeonly.cases": 3000, "children.families_eight_levels_deep": 2},
        "assumptions": ["reference enumerator equals the documented digit layout"],
    },
    "C05": {
        "sources": KIT + ["mon_C05.c"],
        "phases": simple("mon_C05.c"),
        "level": "exploration",
        "level_text": "Every output of the seven gridDisk-family functions and of areNeighborCells is compared with a breadth-first search over geometric adjacency (cells found by pushing points across each "
                      "boundary segment, no neighbour table involved): every cell of res 0-3 (quick) / 0-5 (thorough) with k<=3 plus the neighbour predicate on its whole 2-ball and all siblings; every cell "
                      "within 2 (quick) / 8 (thorough) steps of each pentagon and seam seeds at all 16 resolutions with k<=8; globe-wrapping disks (k=12/25/45 at res 0/1/2); random origins with k<=30. "
                      "Unsafe variants must fail or be ring-exact. ASan+UBSan, exact-size buffers.",
        "level_note": "Trusted base: geometric adjacency (vf_kit.c; cross-checked by C08's tiling monitor) and the BFS. Cells within ~1e-7 rad of a pole at res 14-15 are undecided for the oracle and counted, not judged.",
        "technique": "runtime monitoring: reference-model comparison (BFS on geometry-derived adjacency) of all disk/ring outputs under ASan/UBSan",
        "evaluations": ["disk.cases", "nbr.cases", "disks.cases"],
        "rule": "cases: (origin, k) run through all seven disk/ring functions; (origin) neighbour facts + predicate over the 2-ball, siblings and far cells; (3 origins, k) for gridDisksUnsafe. Non-trivial = k>0; "
                "distinct by hash of (origin, k).",
        "require": {"disk.cases": 50000, "disk.with_pentagon": 2000, "pred.pairs": 500000, "pred.sibling_pairs": 100000, "unsafe.errors": 1000, "unsafe.successes": 10000, "disk.wrapping": 10, "ring.successes": 10000, "wrapring.origins": 500, "wrapring.radius_wraps_half_globe": 5000, "disk.covers_globe": 500, "pred.structured_far_pairs": 100000, "disk.k_sweep": 65, "disk.k_sweep_pentagon_inside": 65},
        # every reachable cell of the neighbour-traversal tables must have been looked up (measured through the
        # H3_VERIF_HOOKS observation points: column 0 = CENTER is never a traversal direction)
        "require_tables": {"NEW_DIGIT_II@": 42, "NEW_DIGIT_III@": 42, "baseCellNeighbors@h3NeighborRotations": 732},
        "assumptions": ["geometric adjacency is the neighbour relation of the statement (validated by the tiling check of C08)"],
    },
    "C06": {
        "sources": KIT + ["mon_C06.c"],
        "phases": simple("mon_C06.c"),
        "level": "exploration",
        "level_text": "Thousands of structured sets (complete sub-trees of depth 1-6 incl. pentagon-rooted ones, partial sibling groups, sub-trees with one leaf removed, sibling families under one grandparent, isolated "
                      "cells, whole disks; 1 to >1e5 cells; res 1-15) are each presented sorted, reversed, rotated and shuffled; the non-zero output of compactCells must equal the unique canonical compaction computed by an "
                      "independent bottom-up reference, uncompactCells of it must be exactly the input set, uncompactCellsSize = |S|, capacity |S|-1 -> E_MEMORY_BOUNDS without overrun, coarser target -> E_RES_MISMATCH. "
                      "For sets too large to materialise (canonical sets of 1-5 coarse cells expanded to every finer resolution, up to 7^15 members) uncompactCellsSize is compared with closed-form 128-bit counts and a tiny capacity must be refused. "
                      "ASan+UBSan, exact-size buffers, assertions intercepted.",
        "level_note": "Trusted base: reference compaction (sorted grouping by parent using the documented child counts). Duplicated or mixed-resolution inputs are outside the statement (driven in C12 for safety only).",
        "technique": "runtime monitoring: reference-model comparison (canonical compaction is unique) across input orderings, under ASan/UBSan with exact-size buffers",
        "evaluations": ["compact.calls", "uncompact.calls", "deepsize.calls"],
        "rule": "a case is one generated set (from a 64-bit seed) run through 4 (quick) / 6 (thorough) orderings. Non-trivial = the canonical compaction is strictly smaller than the set (at least one complete sibling group); "
                "distinct by seed.",
        "require": {"sets": 1000, "sets.compactable": 500, "compact.cells_in": 5000000, "uncompact.short_capacity": 500, "uncompact.coarser_target": 300, "deepsize.calls": 3000, "deepsize.short_capacity": 1000},
        "assumptions": ["reference compaction is the canonical form described by the statement (no ancestor pairs, no complete sibling set)"],
    },
    "C07": {
        "sources": KIT + ["vf_poly.c", "mon_C07.c"],
        "phases": simple("mon_C07.c"),
        "level": "exploration",
        "level_text": "Thousands of generated well-formed polygons (star-shaped loops of 3-40 vertices, concave, needles down to 1:500, 0.05-30 cell widths, 0-3 disjoint interior holes of both orientations, a third "
                      "placed on the antimeridian or around a pentagon, both hemispheres, all 16 resolutions) are filled by polygonToCells and polygonToCellsExperimental(CENTER); every candidate cell (from latLngToCell on a "
                      "grid over the grown bounding box, plus the outputs) is judged by an independent long-double planar containment test of its centre: unambiguous inside => returned by both, unambiguous outside => by "
                      "neither, no duplicates, outputs within the exact-size buffers of the two max-size functions (ASan).",
        "level_note": "Trusted base: planar crossing-number oracle on unrolled coordinates; centres within max(1e-11, 64 ulp) of an edge are ambiguous and not judged. 'Well-formed' is read as in DESIGN.md §5 C07 (whole loop spans < 180 degrees of longitude).",
        "technique": "runtime monitoring: independent point-in-polygon oracle over an independently enumerated candidate set, differential between the two fill algorithms, under ASan/UBSan",
        "evaluations": ["polygons"],
        "rule": "a case is one generated polygon (from a 64-bit seed) filled by both algorithms; every candidate cell is judged. Non-trivial = polygon for which at least one algorithm returns a cell; distinct by seed. 'cells.judged' counts candidate cells.",
        "require": {"polygons": 1500, "cells.inside": 100000, "cells.outside": 100000, "polygons.antimeridian": 200, "polygons.with_holes": 300, "polygons.needle": 300, "polygons.near_pentagon": 100,
                    "polygons.100plus_cells": 100, "polygons.empty_result": 50},
        "assumptions": ["containment is in latitude/longitude space with straight edges, as the statement says", "loops spanning >= 180 degrees of longitude are outside the judged domain"],
    },
    "C08": {
        "sources": KIT + ["mon_C08.c"],
        "phases": simple("mon_C08.c"),
        "post": post_C08,
        "level": "exploration",
        "level_text": "For every cell of resolutions 0-5 (quick) / 0-6 (thorough) and for the 3-disks of all pentagons and 1-disks of face-edge / face-centre / pole / antimeridian cells at every finer "
                      "resolution: vertex count class, counter-clockwise orientation, centre strictly inside, every boundary segment matched reversed within 1e-12 rad by exactly one segment of exactly "
                      "one geometric neighbour (no gap, no overlap), one connected 1-2 segment stretch per neighbour, cellAreaRads2 vs an independent long-double spherical area (1e-8), unit scaling, and "
                      "the whole-resolution area sums vs 4*pi (1e-9; res 0-5 quick, 0-7 thorough). ASan+UBSan.",
        "level_note": "Trusted base: long-double geometry of the oracle; geometric adjacency via latLngToCell (itself judged by C02). Exhaustive only for the coarse resolutions named in the evidence.",
        "technique": "runtime monitoring: geometric tiling oracle (segment matching between geometric neighbours) and independent spherical-area computation over complete coarse resolutions, under ASan/UBSan",
        "evaluations": ["cells"],
        "rule": "a case is one cell: boundary/centre/area checks plus segment matching against its geometric neighbours. Non-trivial = cell whose boundary has distortion vertices "
                "(7, 8 or 10 vertices) or a pentagon; distinct by cell index. 'segments' counts boundary segments matched.",
        "require": {"cells": {"quick": 2000000, "thorough": 100000000}, "segments.matched_once": 10000000, "special.cells": 5000, "numverts.10": 12, "numverts.07": 100, "numverts.08": 10, "footprint_tip.cells": 5000},
        "exhaustive": True,
        "exhaustive_note": "tiling exhaustive for res 0-5 (quick) / 0-6 (thorough); area sums for res 0-5 / 0-7",
        "assumptions": ["tolerances 1e-12 rad (shared vertices) from the property; 1e-8 relative (area) and 1e-9 (sum) measured with >100x headroom"],
    },
    "C09": {
        "sources": KIT + ["mon_C09.c"],
        "phases": simple("mon_C09.c"),
        "level": "exploration",
        "level_text": "gridDistance is compared with BFS depth on geometry-derived adjacency for every ordered pair of cells on the globe at res 0-1 and res 2 (every second origin quick, all thorough), all pairs within "
                      "12 (quick, 1/8 of origins) / 25 (thorough, all origins) steps at res 3, and all cells within 10 (quick) / 20 (thorough) steps of every origin within 2 / 4 steps of each pentagon at res 3-15; symmetry, "
                      "0 for a=b, 1 and mandatory success for neighbours, E_RES_MISMATCH. Local IJ: both round-trip directions over the same balls and over the (2R+1)^2 IJ grid around each origin, unit steps between "
                      "neighbours where BFS finds no pentagon within R+1, extreme IJ inputs under UBSan. ASan+UBSan.",
        "level_note": "Trusted base: geometric adjacency + BFS. Far pairs (distance up to 200) at fine resolutions are judged for symmetry only, the BFS ball being too large.",
        "technique": "runtime monitoring: reference-model comparison (BFS on geometry-derived adjacency), round-trip and local-consistency monitors on the IJ chart, UBSan for the overflow guards",
        "evaluations": ["pairs", "ij.to_calls", "ij.from_calls", "ij.extreme_calls"],
        "rule": "cases: ordered (origin, cell) pairs; (origin, cell) and (origin, i, j) IJ conversions. Evidence counts pairs; the distinct set holds origins (whole-resolution sweeps: each origin against every cell of the "
                "resolution; ball sweeps: each origin against its BFS ball), non-trivial = every origin; distinct by origin (and radius).",
        "require": {"pairs": {"quick": 10000000, "thorough": 100000000}, "pairs.structured_far": 1000, "pairs.geometric_lower_bound_judged": 1000, "pairs.success": 1000000, "pairs.failed": 100000, "pairs.under_directed_rounding": 20000, "origins.ball_with_pentagon": 500, "ij.roundtrips": 100000, "ij.roundtrips_rev": 100000,
                    "ij.neighbour_steps": 100000, "ij.extreme_rejected": 100, "mismatch.calls": 100},
        "exhaustive": True,
        "exhaustive_note": "all ordered pairs at res 0-1 (and res 2 in the thorough tier); balls elsewhere",
        # all reachable cells of the five pentagon unfolding tables (FAILED_DIRECTIONS 6x6 over leading digits {0,2..6};
        # PENTAGON_ROTATIONS = those minus the 10 failed directions; reverse tables: K row unreachable)
        "require_tables": {"FAILED_DIRECTIONS@": 36, "PENTAGON_ROTATIONS@cellToLocalIjk": 26, "PENTAGON_ROTATIONS_REVERSE@": 42,
                           "PENTAGON_ROTATIONS_REVERSE_POLAR@": 35, "PENTAGON_ROTATIONS_REVERSE_NONPOLAR@": 35,
                           "baseCellNeighbor60CCWRots@cellToLocalIjk": 720, "baseCellNeighbor60CCWRots@localIjkToCell": 710},
        "assumptions": ["geometric adjacency is the neighbour relation of the statement (validated by C08)"],
    },
    "C10": {
        "sources": KIT + ["mon_C10.c"],
        "phases": simple("mon_C10.c"),
        "level": "exploration",
        "level_text": "For every cell of res 0-4 (quick) / 0-5 (thorough), the 3-disks of all pentagons and 1-disks of seam/pole/antimeridian seeds at all finer resolutions, and random cells: each geometric neighbour must give a "
                      "valid edge that decodes back, originToDirectedEdges must be exactly that set, distance-2 cells / the cell itself / non-adjacent siblings must give E_NOT_NEIGHBORS, directedEdgeToBoundary must equal the "
                      "geometrically shared stretch of the two cell boundaries (2 or 3 points, 1e-12 rad) and the reverse edge the same points reversed, edge lengths = long-double great-circle length. isValidDirectedEdge is "
                      "compared with the documented form on millions of hostile candidates over all 8 direction values. ASan+UBSan.",
        "level_note": "Trusted base: geometric adjacency, segment matching and ref_is_valid_edge (vf_kit.c).",
        "technique": "runtime monitoring: geometric reference (adjacency, shared boundary stretch, arc length) and documentation-derived edge predicate, under ASan/UBSan",
        "evaluations": ["cells", "candidates"],
        "rule": "cases: one origin cell with all its geometric neighbours, its 2-ball and its siblings; one 64-bit candidate edge index. Non-trivial = every origin cell; distinct by cell. 'edges' counts directed edges judged.",
        "require": {"cells": 300000, "edges": 1800000, "non_neighbour_pairs": 1000000, "candidates": 1000000, "candidates.valid": 10000, "edges.three_point": 1000, "special.cells": 3000},
        "exhaustive": True,
        "exhaustive_note": "all cells of res 0-4 (quick) / 0-5 (thorough)",
        "assumptions": ["geometric adjacency is the neighbour relation of the statement (validated by C08)"],
    },
    "C11": {
        "sources": KIT + ["mon_C11.c"],
        "phases": simple("mon_C11.c"),
        "post": post_C11,
        "level": "exploration",
        "level_text": "Corners are found geometrically (boundary vertices coinciding with vertices of exactly two other cells); for every cell of res 0-4 (quick) / 0-5 (thorough), pentagon 3-disks and seam seeds at all finer "
                      "resolutions and random cells: six (five + null) distinct valid indexes, cellToVertex(i) = slot i, vertexToLatLng on the i-th corner (1e-12 rad), the identical index produced by the two other cells of the "
                      "corner, its cell bits naming one of the three, the alias through each non-owner cell rejected by isValidVertex, out-of-range vertex numbers -> E_DOMAIN, neighbours <=> exactly two shared indexes over the "
                      "2-ball, and the global identity 2N-4 per complete resolution. isValidVertex on millions of hostile mode-4 candidates must accept only the canonical form. ASan+UBSan.",
        "level_note": "Trusted base: geometric corner detection and adjacency (vf_kit.c). 'Canonical form' for hostile candidates is the index the owner cell itself lists at that slot, which the per-cell monitor ties to the geometry.",
        "technique": "runtime monitoring: geometric corner oracle (three-cell incidence), alias rejection and global count identity, under ASan/UBSan",
        "evaluations": ["cells", "candidates"],
        "rule": "cases: one cell with all its corners and its 2-ball; one 64-bit candidate vertex index. Non-trivial = every judged cell; distinct by cell. 'corners' counts (cell, vertex number) pairs judged.",
        "require": {"cells": 300000, "corners": 1800000, "candidates": 1000000, "candidates.valid": 1000, "shared.pairs": 1000000, "special.cells": 3000, "range.calls": 100000},
        "exhaustive": True,
        "exhaustive_note": "all cells of res 0-4 (quick) / 0-5 (thorough) incl. the 2N-4 identity",
        "assumptions": ["boundary vertices coincide within 1e-12 rad between adjacent cells (C08)"],
    },
    "C12": {
        "sources": KIT + ["mon_C12.c"],
        "phases": [{"name": "main", "config": "asan"},
                   {"name": "ndebug", "config": "asan-ndebug"},
                   {"name": "fuzz", "config": "fuzz"},
                   {"name": "memcheck", "config": "memcheck", "tiers": ["thorough"], "workers": 16,
                    "wrap": ["valgrind", "-q", "--error-exitcode=97", "--track-origins=no", "--malloc-fill=0xAB"]}],
        "level": "exploration",
        "level_text": "All 73 exported functions are called with hostile arguments (uniform bits, valid cells with 1-3 flipped bits, wrong mode/reserved bits, digit 7 inside the resolution, deleted-sub-sequence pentagon cells, base cell "
                      "122-127, extreme ints, NaN/inf/1e300/denormal doubles, malformed polygons with 0-2 vertices / repeated vertices / empty holes / self-intersections / non-finite coordinates, malformed cell sets with "
                      "duplicates / mixed resolutions / H3_NULL / reserved bits) and with random 2-6 call sequences feeding outputs into the next call, on exact-size heap buffers, under ASan+UBSan+float-cast-overflow with "
                      "assertions on (every internal safety check that fires is intercepted and reported), again on the release (-DNDEBUG) build under the sanitizers, again with every draw of the generators taken from a byte tape that "
                      "libFuzzer mutates under coverage feedback from the library (clang build), and (thorough) a slice under valgrind memcheck. "
                      "Return codes must be 0..15, out-of-domain scalars must give their documented code where the call is otherwise well-formed (Appendix A of DESIGN.md), every call must return within the per-call budget.",
        "level_note": "Sampling of a huge argument space; sizes above 2e6 output slots are skipped and counted. Polygons with non-finite / out-of-range outer coordinates are driven at res <= 4 only (known finding F4: unbounded scan).",
        "technique": "runtime monitoring: compiler sanitizers (ASan, UBSan) and valgrind memcheck with guarded exact-size buffers, assertion interception, return-code table and per-call watchdog over hostile workloads, "
                     "random and coverage-guided (libFuzzer over the same case generators)",
        "evaluations": ["cases"],
        "rule": "a case is one table entry (a group of API calls sharing generated hostile arguments) or one call sequence, replayable from the PRNG state. Every case is non-trivial (hostile arguments); one case in 16 is entered "
                "into the distinct set, keyed by the PRNG state, so the distinct count is a sampled lower bound. 'api_calls' counts individual library calls.",
        "require": {"cases": {"quick": 400000, "thorough": 20000000}, "api_calls": 2000000, "documented_code_judgements": 200000, "polygons": 30000, "sequence": 30000, "disks": 30000,
                    "fuzz.execs": {"quick": 36000, "thorough": 700000}, "fuzz.corpus_units_kept": 1000},
        "assumptions": ["documented codes as tabulated in DESIGN.md Appendix A", "red-zone sanitizers do not see non-adjacent overflows into other live objects"],
    },
    "C13": {
        "sources": KIT + ["mon_C13.c"],
        "phases": simple("mon_C13.c"),
        "level": "exploration",
        "level_text": "Both directions are compared with an independent rank/unrank on digit arithmetic for every pentagon parent at every (parentRes, childRes) pair (136 pairs x 12) at positions "
                      "0, 1, last, every boundary of the pentagon/hexagon offset formulas +-1 at each level, out-of-range and INT64 extremes, plus random positions; descendants that leave the "
                      "pentagon chain at each level are ranked under every ancestor; position i == cellToChildren[i] for all lists that fit; random hexagon parents. ASan+UBSan.",
        "level_note": "Trusted base: reference rank/unrank (vf_kit.c).",
        "technique": "runtime monitoring: differential execution against an independent rank/unrank model under ASan/UBSan",
        "evaluations": ["pos.calls", "rank.calls", "list.positions", "errors.calls"],
        "rule": "cases: (parent, childRes, position), (child, parentRes), whole child lists, hostile resolutions. Non-trivial = family with >1 child or out-of-range position or child strictly finer than the parent; distinct by hash of the triple.",
        "require": {"pos.calls": 50000, "pos.out_of_range": 1000, "rank.calls": 10000, "list.positions": 100000, "errors.rejected": 500},
        "assumptions": ["reference rank/unrank equals the documented child order"],
    },
    "C14": {
        "sources": KIT + ["mon_C14.c"],
        "phases": simple("mon_C14.c"),
        "level": "exploration",
        "level_text": "Every successful gridPathCells output is checked cell by cell: announced size = gridDistance+1 = BFS depth+1, first/last cells, every step a geometric neighbour of its predecessor, all cells valid; "
                      "mandatory success for a=b and neighbours; exact-size output buffers under ASan so that any write beyond the announced size (also on failure) is seen. Workload: all ordered pairs up to distance 40 "
                      "at res 0-1 and res 2 (1/16 of origins quick, all thorough), BFS balls of radius 8 (quick) / 20 (thorough) around origins within 1 / 3 steps of every pentagon at res 3-15, seam and random origins, and "
                      "long paths (100-2000 cells) at res 8-15 in straight, |di|=|dj| and half-integer tie directions. Also: origins in the belt of 2-18 (res 3), 4-45 (res 4), thorough 10-120 (res 5) steps around each of the twelve pentagons with sampled targets up to 30/75/200 steps away (paths that graze a pentagon); and a sample of all strata with the API calls made under FE_UPWARD, FE_DOWNWARD and FE_TOWARDZERO (the oracle stays in round-to-nearest).",
        "level_note": "Trusted base: geometric adjacency and BFS; long paths have no BFS oracle (contiguity + announced length + gridDistance consistency only; gridDistance itself is C09's subject).",
        "technique": "runtime monitoring: per-step adjacency monitor on geometry-derived neighbours plus BFS reference distance, exact-size buffers under ASan/UBSan",
        "evaluations": ["pairs"],
        "rule": "a case is an ordered (start, end) pair run through gridPathCellsSize, gridDistance and gridPathCells. Non-trivial = successful path of more than two cells; distinct by hash of the pair.",
        "require": {"pairs": 1000000, "paths.success": 300000, "paths.failed": 1000, "long.cases": 50, "origins.ball": 300, "origins.pentagon_belt": 500, "pairs.under_directed_rounding": 20000},
        "assumptions": ["geometric adjacency is the neighbour relation of the statement (validated by C08)"],
    },
    "C15": {
        "sources": KIT + ["vf_poly.c", "mon_C15.c"],
        "phases": [{"name": "main", "config": "asan-alloc"}],
        "level": "exploration",
        "level_text": "For thousands of generated well-formed polygons (same generator as C07: needles, holes, antimeridian, pentagons, sub-cell to hundreds of cells) and all four modes: exact set facts (no duplicates, nesting "
                      "FULL<=CENTER<=OVERLAPPING<=OVERLAPPING_BBOX off the pole cells, the fill fits the announced size, capacity count-1 -> E_MEMORY_BOUNDS without overrun, invalid flags -> E_OPTION_INVALID, allocator ledger "
                      "empty after every call) and three-valued membership: every FULL cell has centre and vertices inside; every candidate cell (BBOX output + independent grid) classified definitely-interior must be in FULL, "
                      "definitely-overlapping in OVERLAPPING, definitely-disjoint not in OVERLAPPING. A classification is made only where planar and great-circle readings of the cell agree with 2% / 0.5% margins; the rest is ambiguous and counted.",
        "level_note": "Trusted base: planar geometry of the oracle (segment crossing/distance, point-in-polygon) in long double; cells within the margins of the polygon boundary are not judged for membership. Pole cells are excluded as the statement says.",
        "technique": "runtime monitoring: set-algebra monitors plus a three-valued geometric membership oracle, allocator ledger, under ASan/UBSan with exact-size buffers",
        "evaluations": ["polygons"],
        "rule": "a case is one generated polygon x 4 containment modes (+ short-capacity and invalid-flag calls). Non-trivial = OVERLAPPING returns strictly more cells than FULL (the polygon boundary cuts cells); distinct by seed.",
        "require": {"polygons": 1000, "cells.definitely_interior": 20000, "cells.definitely_overlapping": 20000, "cells.definitely_disjoint": 50000, "full.cells_checked": 20000, "capacity.short_calls": 1000, "flags.invalid_calls": 1000,
                    "polygons.antimeridian": 100, "polygons.with_holes": 200},
        "assumptions": ["margins delta=2%, delta'=0.5% of the cell width separate the planar and great-circle readings of a cell (DESIGN.md §6)"],
    },
    "C16": {
        "sources": KIT + ["mon_C16.c"],
        "phases": [{"name": "main", "config": "asan-alloc"}],
        "level": "exploration",
        "level_text": "Every 1-disk and every neighbour pair of all cells of res 0-2 (quick) / 0-3 (thorough), plus thousands of generated sets at all resolutions (1-3 disks of radius up to 9/16 with 0-45% of the cells removed at "
                      "random, around pentagons, on the antimeridian, touching or separate) are outlined; the result must have one polygon per edge-connected component (union-find on geometric adjacency), the number of loops the "
                      "Euler characteristic of the set demands, exactly as many vertices as the outline has boundary points, first loop counter-clockwise and the others clockwise, >=3 vertices per loop, every vertex a boundary vertex of "
                      "an input cell (1e-12 rad), enclosed area = sum of cell areas (1e-7), and an empty allocator ledger after destroyLinkedMultiPolygon / after an error. Sets containing a pole cell are skipped as the statement says.",
        "level_note": "Trusted base: geometric adjacency, shared-stretch matching (vf_kit.c), canonical vertex indexes (validated by C11) for the Euler count. The vertex-hash defect F2 is repaired (the exhaustive corpus has no failing set any more); failures on sets with a component wider than 180 degrees of "
                      "longitude (open finding F10, witness run on every check) are matched by a signature computed on the failing set.",
        "technique": "runtime monitoring: topological reference (components, Euler characteristic, outline size), orientation/area monitors and allocator ledger, under ASan/UBSan",
        "evaluations": ["sets", "memory_only.sets"],
        "rule": "a case is one set of distinct same-resolution cells. Non-trivial = more than one cell; distinct by hash of the sorted set.",
        "require": {"sets": 20000, "corpus.origins": 6000, "sets.with_holes": 50, "sets.multi_component": 50, "cells_in": 200000, "memory_only.error_returns": 100, "sets.globe_minus_patches": 100, "sets.targets_nine_or_more_rings": 30},
        "assumptions": ["three cells meet at every corner, so outline loops are simple and 2-(V-E+F) counts them"],
    },
    "C17": {
        "sources": KIT + ["vf_poly.c", "mon_C17.c"],
        "phases": [{"name": "main", "config": "asan-alloc", "aux": "plain-so"}],
        "level": "fault_enumeration",
        "level_text": "For each input the call runs once unfaulted (allocation count N recorded, ledger must be empty on return, results compared with a default-allocator copy of the library in the same process) and then "
                      "2N more times, failing exactly the i-th allocation and failing the i-th and every later one, for every i <= N (cap 400): the call must return E_MEMORY_ALLOC, leave no live block and free nothing twice. "
                      "Inputs: compactions with 1-5 rounds (+ error paths: duplicate, reserved bits, digit 7, ancestor among the cells, hostile index, H3_NULL), gridDisk/gridDiskDistances and areNeighborCells over the "
                      "2-disks of all pentagons at all resolutions (fallback allocations), random cells, and hostile origins/pairs (bit flips, wrong mode, digit 7 inside the resolution, deleted pentagon sub-sequence, "
                      "base cell >= 122, k in -2..4) whose error is raised inside the fallback; legacy and experimental polygon fills (0-3 holes, four modes, bad flags, too-small capacity) incl. polygons around "
                      "pentagons, maxPolygonToCellsSizeExperimental, and failing polygons (resolution out of range, NaN/inf/1e300 vertices in loop or hole, loops and holes of 0-2 vertices). ASan+UBSan.",
        "level_note": "Complete over allocation indexes of every executed call; the inputs are sampled. The ledger interposes through the library's own H3_ALLOC_PREFIX mechanism; allocations inside libc are not faulted.",
        "technique": "runtime fault injection: allocator ledger with exhaustive failure-index enumeration per call, differential run against the default allocator, under ASan/UBSan",
        "evaluations": ["calls", "faulted_runs"],
        "rule": "a case is one (call, failing allocation index, single|all-later) execution plus the unfaulted execution of each call. Non-trivial = a faulted run in which the injected failure was actually reached; "
                "distinct by hash of (call description, index, mode).",
        "require": {"calls": 1000, "faulted_runs": 1500, "calls.compactCells": 50, "calls.gridDisk": 100, "calls.gridDiskDistances": 100, "calls.areNeighborCells": 300, "calls.polygonToCells": 50,
                    "calls.polygonToCellsExperimental": 100, "calls.maxPolygonToCellsSizeExperimental": 100, "errorpath.compactCells": 20, "errorpath.polygonToCellsExperimental": 30, "errorpath.gridDisk": 100, "errorpath.gridDiskDistances": 100, "errorpath.areNeighborCells": 500,
                    "errorpath.maxPolygonToCellsSizeExperimental": 15, "errorpath.polygonToCells": 20, "hostile.cases": 300, "badpoly.cases": 30, "compaction.multi_round_sets": 8},
        "assumptions": ["every library allocation goes through H3_MEMORY (the prefix mechanism)", "the default-allocator copy is the same source tree compiled without the prefix"],
    },
    "C18": {
        "sources": KIT + ["mon_C18.c"],
        "phases": [{"name": "wtrap", "config": "plain-so", "workers": 4},
                   {"name": "ledger", "config": "asan-alloc", "workers": 4},
                   {"name": "tsan", "config": "tsan", "workers": 4},
                   {"name": "threads", "config": "plain", "workers": 4}],
        "level": "exploration",
        "level_text": "Four monitors over one deterministic mixed program (24 API groups: indexing, disks/rings incl. pentagon fallbacks, paths, hierarchy, compaction, both polygon fills, multipolygon, edges, vertexes, strings, "
                      "error descriptions): (1) write-trap: the library is a shared object whose writable segment (.data/.bss) is mprotect'ed read-only during the workload (single- and 4-threaded), so any store into "
                      "library-owned static memory faults, and the segment bytes are compared before/after; (2) allocator ledger: no library allocation is live when an API call returns (the multipolygon result until destroy "
                      "excepted); together these leave no library-owned writable memory two calls could share, independently of scheduling; (3) ThreadSanitizer with 2/4/8/16 threads and random yields/sleeps between calls: any "
                      "report is a violation; (4) per-thread output hashes of concurrent runs equal those of the same programs run sequentially (tsan and plain builds).",
        "level_note": "'All interleavings' cannot be enumerated at run time: (1)+(2) are schedule independent for the executed paths, (3)+(4) cover what actually ran concurrently (the evidence lists which API pairs were observed overlapping in time).",
        "technique": "runtime monitoring: write-protection trap on the library's static data, allocator ledger, ThreadSanitizer, and concurrent-vs-sequential output comparison",
        "evaluations": ["programs"],
        "rule": "a case is one program (seeded sequence of 150-2000 steps, ~25 API calls each) run under one monitor. Non-trivial = every program; distinct by (seed, thread count). api_calls counts library calls; overlap.pair.XX_YY "
                "counts observations of API group XX starting while another thread was inside group YY.",
        "require": {"programs": 200, "api_calls": 1000000, "wtrap.protected_runs": 4, "ledger.api_returns_checked": 100000, "runs.threads_16": 4, "runs.threads_02": 4, "overlap.observations": 100000,
                    "calls.polygonToCells": 1000, "calls.cellsToLinkedMultiPolygon": 500, "calls.compactCells": 5000, "fp_environment.api_returns_checked": 10000},
        "assumptions": ["memory obtained from libc (malloc) is the only other writable memory the library can reach; the ledger covers it", "TSan reports nothing it cannot see: libc internals are uninstrumented"],
    },
    "C19": {
        "sources": KIT + ["mon_C19.c"],
        "phases": simple("mon_C19.c"),
        "level": "exploration",
        "level_text": "For every cell of res 0-4 (quick) / 0-6 (thorough) and for the 1-2 disks of 20-35 seeds on each of the 30 icosahedron edges, the 12 vertices, 20 face centres at every finer resolution: slot count, "
                      "distinct entries 0-19, -1 padding, five faces for a pentagon and one or two for a hexagon, every face on which a decided interior sample lies (nearest face centre by > 1e-9; centre, strict-interior "
                      "vertices, 12x12 / 40x40 grid per fan triangle) is reported, and every reported face is hit by a sample (densified to 200x200) or provably within 1e-9 of the cell (counted ambiguous). ASan+UBSan.",
        "level_note": "Trusted base: Voronoi characterisation of icosahedron faces; face numbering from the library's faceCenterGeo table, whose geometry is cross-checked against centroids of adjacent pentagon centres.",
        "technique": "runtime monitoring: geometric sampling oracle (nearest face centre of interior points) under ASan/UBSan",
        "evaluations": ["cells"],
        "rule": "a case is one cell. Non-trivial = cell whose interior samples hit more than one face, or a pentagon; distinct by cell.",
        "require": {"cells": 300000, "cells.multi_face": 5000, "special.cells": 20000, "face_centres_crosschecked": 20},
        "exhaustive": True,
        "exhaustive_note": "all cells of res 0-4 (quick) / 0-6 (thorough)",
        "assumptions": ["a face sliver thinner than the sampling grid and farther than 1e-9 from every strict-interior vertex would be reported as unexplained (densification to 200x200 bounds this)"],
    },
    "C20": {
        "sources": KIT + ["mon_C20.c"],
        "phases": simple("mon_C20.c"),
        "level": "exploration",
        "level_text": "Held on every (value, buffer size) and byte-string case executed: structured enumeration of bit positions, digit counts and "
                      "sizes 0..32 plus millions of random/hostile values, under ASan+UBSan with exact-size buffers. Not all 2^64 values; sprintf/sscanf "
                      "have no value-dependent branches beyond digit count, which is enumerated completely.",
        "level_note": "Trusts glibc sscanf/sprintf and ASan red zones; input shapes the statement is silent on are observed only.",
        "technique": "runtime monitoring: differential execution against an independent hex formatter under ASan/UBSan with guarded exact-size buffers",
        "evaluations": ["tostr.calls", "parse.calls"],
        "rule": "h3ToString cases are (value, buffer size) pairs: every single-bit value, 0 and ~0 at every size 0..32; every hex digit count "
                "1..16 with random tails at sizes {0,1,15,16,17,18,31,32,random}; all values 0..0xFFFF; cells/edges/vertexes produced by the "
                "library; hostile and uniform 64-bit values. stringToH3 cases are byte strings: every string of length <=2 and random strings "
                "<=20 bytes. A case is counted as non-trivial when it is judged (tostr: always; parse: canonical-hex or non-hex-start shape) "
                "and distinct by hash of (value,size) resp. of the bytes.",
        "require": {"tostr.small": 100, "tostr.fit": 1000, "roundtrip": 1000, "parse.nonhex": 1000, "parse.canonical": 100,
                    "roundtrip.16digit_or_highbit": 10, "tostr.unaligned_destinations": 100000},
        "assumptions": ["glibc sscanf/sprintf behave per C standard", "ASan red zones / canaries detect writes next to the exact-size buffer",
                        "shapes the statement does not cover (sign, whitespace, 0x, padding, upper case, >16 digits, trailing junk) are observed, not judged"],
    },
}
