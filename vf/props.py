"""Per-property metadata of the driver: what to build, how to run it, what the
evidence must contain.  (The deciding logic lives in the C monitors.)"""

KIT = ["vf_kit.c"]
HOOK_COMMITS = []
NOT_APPLICABLE = {}


def simple(mon, config="asan", **kw):
    d = {"name": "main", "config": config}
    d.update(kw)
    return [d]


PROPS = {
    "C20": {
        "sources": KIT + ["mon_C20.c"],
        "phases": simple("mon_C20.c"),
        "level": "exploration",
        "level_text": "Held on every (value, buffer size) and byte-string case executed: structured enumeration of bit positions, digit counts and "
                      "sizes 0..32 plus millions of random/hostile values, under ASan+UBSan with exact-size buffers. Not all 2^64 values; sprintf/sscanf "
                      "have no value-dependent branches beyond digit count, which is enumerated completely.",
        "level_note": "Trusts glibc sscanf/sprintf and ASan red zones; input shapes the statement is silent on are observed only.",
        "technique": "runtime monitoring: differential execution against an independent hex formatter under ASan/UBSan with guarded exact-size buffers",
        "evaluations": ["tostr.calls", "parse.calls"],
        "rule": "h3ToString cases are (value, buffer size) pairs: every single-bit value, 0 and ~0 at every size 0..32; every hex digit count "
                "1..16 with random tails at sizes {0,1,15,16,17,18,31,32,random}; all values 0..0xFFFF; cells/edges/vertexes produced by the "
                "library; hostile and uniform 64-bit values. stringToH3 cases are byte strings: every string of length <=2 and random strings "
                "<=20 bytes. A case is counted as non-trivial when it is judged (tostr: always; parse: canonical-hex or non-hex-start shape) "
                "and distinct by hash of (value,size) resp. of the bytes.",
        "require": {"tostr.small": 100, "tostr.fit": 1000, "roundtrip": 1000, "parse.nonhex": 1000, "parse.canonical": 100,
                    "roundtrip.16digit_or_highbit": 10},
        "assumptions": ["glibc sscanf/sprintf behave per C standard", "ASan red zones / canaries detect writes next to the exact-size buffer",
                        "shapes the statement does not cover (sign, whitespace, 0x, padding, upper case, >16 digits, trailing junk) are observed, not judged"],
    },
}
