/* vf_kit.c — shared kit of the runtime monitors (see vf.h, DESIGN.md §3). */
#include "vf.h"

#include <errno.h>
#include <fcntl.h>
#include <pthread.h>
#include <signal.h>
#include <sys/mman.h>
#include <sys/time.h>
#include <signal.h>
#include <sys/stat.h>
#include <unistd.h>

vf_ctx_t VF;

/* ================================================================== rng */
uint64_t vf_mix(uint64_t x) {
    x += 0x9E3779B97F4A7C15ULL;
    x = (x ^ (x >> 30)) * 0xBF58476D1CE4E5B9ULL;
    x = (x ^ (x >> 27)) * 0x94D049BB133111EBULL;
    return x ^ (x >> 31);
}
void vf_rng_seed(vf_rng *r, uint64_t seed) {
    for (int i = 0; i < 4; i++) {
        seed += 0x9E3779B97F4A7C15ULL;
        r->s[i] = vf_mix(seed);
    }
}
void vf_rng_stream(vf_rng *r, uint64_t purpose) {
    vf_rng_seed(r, vf_mix(VF.seed) ^ vf_mix((uint64_t)VF.shard * 1000003ULL + 17) ^
                       vf_mix(purpose * 0x51ED270B1ULL + 99));
}
static inline uint64_t rotl(uint64_t x, int k) { return (x << k) | (x >> (64 - k)); }
/* tape mode (coverage-guided phases): while a tape is set, draws are taken from its bytes, so that a mutation engine
 * controls every choice the case generator makes; once the tape is used up the generator continues from r's own state */
static const uint8_t *tape_p;
static size_t tape_n, tape_pos;
void vf_tape_set(const uint8_t *p, size_t n) { tape_p = p; tape_n = n; tape_pos = 0; }
uint64_t vf_u64(vf_rng *r) {
    if (tape_p && tape_pos + 8 <= tape_n) {
        uint64_t v;
        memcpy(&v, tape_p + tape_pos, 8);
        tape_pos += 8;
        return v;
    }
    uint64_t *s = r->s;
    uint64_t result = rotl(s[1] * 5, 7) * 9;
    uint64_t t = s[1] << 17;
    s[2] ^= s[0];
    s[3] ^= s[1];
    s[1] ^= s[2];
    s[0] ^= s[3];
    s[2] ^= t;
    s[3] = rotl(s[3], 45);
    return result;
}
uint64_t vf_below(vf_rng *r, uint64_t n) { return (uint64_t)(((u128)vf_u64(r) * n) >> 64); }
double vf_unit(vf_rng *r) { return (double)(vf_u64(r) >> 11) * (1.0 / 9007199254740992.0); }

/* ================================================================== events */
#define NCTR 1024
static struct {
    const char *name;
    int64_t v;
    double m;
    int ismax;
} ctr[NCTR];
static int nctr;
static int ctr_find(const char *name, int ismax) {
    /* pointer compare first: most callers pass literals */
    for (int i = 0; i < nctr; i++)
        if (ctr[i].name == name) return i;
    for (int i = 0; i < nctr; i++)
        if (!strcmp(ctr[i].name, name)) return i;
    if (nctr == NCTR) vf_fatal("too many counters");
    ctr[nctr].name = strdup(name);
    ctr[nctr].v = 0;
    ctr[nctr].m = -INFINITY;
    ctr[nctr].ismax = ismax;
    return nctr++;
}
void vf_add(const char *name, int64_t n) { ctr[ctr_find(name, 0)].v += n; }
void vf_maxd(const char *name, double v) {
    int i = ctr_find(name, 1);
    if (v > ctr[i].m) ctr[i].m = v;
}

#define DCAP (1u << 22)
static uint64_t *dset;
static size_t dn;
static int dsat;
void vf_distinct(uint64_t key) {
    if (!dset) dset = calloc(DCAP, 8);
    if (key == 0) key = 1;
    if (dn >= DCAP / 2) {
        dsat = 1;
        return;
    }
    size_t i = vf_mix(key) & (DCAP - 1);
    while (dset[i]) {
        if (dset[i] == key) return;
        i = (i + 1) & (DCAP - 1);
    }
    dset[i] = key;
    dn++;
}

static void json_str(FILE *f, const char *s) {
    fputc('"', f);
    for (; *s; s++) {
        unsigned char c = (unsigned char)*s;
        if (c == '"' || c == '\\') {
            fputc('\\', f);
            fputc(c, f);
        } else if (c < 0x20 || c > 0x7e)
            fprintf(f, "\\u%04x", c);
        else
            fputc(c, f);
    }
    fputc('"', f);
}
static int nsamples;
void vf_sample(const char *fmt, ...) {
    if (nsamples >= 4 || !VF.log) return;
    nsamples++;
    char buf[1024];
    va_list ap;
    va_start(ap, fmt);
    vsnprintf(buf, sizeof buf, fmt, ap);
    va_end(ap);
    fprintf(VF.log, "{\"t\":\"sample\",\"s\":");
    json_str(VF.log, buf);
    fprintf(VF.log, "}\n");
}
static char slot_private[4096];
/* ---- CPU-time watchdog: a case that does not finish.
 * Decided on CPU time consumed by this process, never on wall-clock time (a loaded machine must not turn a slow case
 * into a verdict).  A profiling timer ticks every wd_tick_s CPU-seconds; vf_case() bumps a sequence number; when the
 * number has not moved for wd_ticks consecutive ticks the current case has burnt wd_tick_s*wd_ticks CPU-seconds —
 * budgets are set two orders of magnitude above the longest case seen on the unchanged tree (the largest number of
 * stuck ticks observed is written to the evidence as watchdog.max_stuck_ticks).  The record is written with write(2)
 * from the handler and the worker exits with status 3, which the driver reads as "the monitor reported and stopped". */
static volatile uint64_t wd_seq;
static uint64_t wd_last;
static int wd_stuck, wd_stuck_max, wd_ticks, wd_tick_s;
static const char *const volatile *wd_fnp;
void vf_watchdog_fn(const char *const volatile *fnp) { wd_fnp = fnp; }
static void wd_on_tick(int sig) {
    (void)sig;
    if (wd_seq != wd_last) {
        wd_last = wd_seq;
        wd_stuck = 0;
        return;
    }
    if (++wd_stuck > wd_stuck_max) wd_stuck_max = wd_stuck;
    if (wd_stuck < wd_ticks) return;
    char fn[64] = "?", buf[900], slot[400];
    const char *f = wd_fnp ? *wd_fnp : NULL;
    if (f && *f) snprintf(fn, sizeof fn, "%s", f);
    else {
        size_t i = 0;
        for (; VF.slot[i] && VF.slot[i] != ' ' && i < sizeof fn - 1; i++) fn[i] = VF.slot[i];
        fn[i] = 0;
    }
    size_t j = 0;
    for (size_t i = 0; VF.slot[i] && j < sizeof slot - 2; i++) /* the slot holds printable ASCII; drop what JSON would need escaped */
        if (VF.slot[i] != '"' && VF.slot[i] != '\\' && (unsigned char)VF.slot[i] >= 32) slot[j++] = VF.slot[i];
    slot[j] = 0;
    int n = snprintf(buf, sizeof buf,
                     "{\"t\":\"viol\",\"property\":\"%s\",\"kind\":\"hang\",\"fn\":\"%s\",\"key\":\"%016" PRIx64
                     "\",\"sigs\":\"\",\"replay\":\"%s\",\"detail\":\"the case did not finish within %d CPU-seconds of this worker (budget: about 100x the longest case on the unchanged tree): [%s]\"}\n",
                     VF.prop, fn, vf_mix((uint64_t)fn[0] * 131 + (uint64_t)fn[1] * 31 + (uint64_t)strlen(fn)), slot, wd_tick_s * wd_ticks, slot);
    if (VF.log) {
        fflush(VF.log);
        if (write(fileno(VF.log), buf, (size_t)n) < 0) _exit(4);
    }
    _exit(3);
}
void vf_watchdog(int tick_s, int ticks) {
    struct itimerval it = {{tick_s, 0}, {tick_s, 0}};
    wd_tick_s = tick_s;
    wd_ticks = ticks;
    wd_stuck = 0;
    if (tick_s <= 0) {
        memset(&it, 0, sizeof it);
        setitimer(ITIMER_PROF, &it, NULL);
        return;
    }
    struct sigaction sa;
    memset(&sa, 0, sizeof sa);
    sa.sa_handler = wd_on_tick;
    sa.sa_flags = SA_RESTART;
    sigaction(SIGPROF, &sa, NULL);
    setitimer(ITIMER_PROF, &it, NULL);
}

void vf_case(const char *fmt, ...) {
    va_list ap;
    va_start(ap, fmt);
    vsnprintf(VF.slot, 4000, fmt, ap);
    va_end(ap);
    wd_seq++;
}
const char *vf_case_get(void) { return VF.slot; }

void vf_violation_spec(const char *spec, const char *kind, const char *fn, uint64_t key,
                       const char *sigs, const char *fmt, ...) {
    char buf[2048];
    va_list ap;
    va_start(ap, fmt);
    vsnprintf(buf, sizeof buf, fmt, ap);
    va_end(ap);
    VF.nviol++;
    if (VF.nviol > 200) return; /* enough witnesses; counted at the end */
    FILE *f = VF.log ? VF.log : stdout;
    fprintf(f, "{\"t\":\"viol\",\"property\":\"%s\",\"kind\":", VF.prop);
    json_str(f, kind);
    fprintf(f, ",\"fn\":");
    json_str(f, fn);
    fprintf(f, ",\"key\":\"%016" PRIx64 "\",\"sigs\":", key);
    json_str(f, sigs ? sigs : "");
    fprintf(f, ",\"replay\":");
    json_str(f, spec ? spec : VF.slot);
    fprintf(f, ",\"detail\":");
    json_str(f, buf);
    fprintf(f, "}\n");
    fflush(f);
}
void vf_witness(const char *id, int reproduced, const char *fmt, ...) {
    char buf[1024];
    va_list ap;
    va_start(ap, fmt);
    vsnprintf(buf, sizeof buf, fmt, ap);
    va_end(ap);
    FILE *f = VF.log ? VF.log : stdout;
    fprintf(f, "{\"t\":\"witness\",\"id\":");
    json_str(f, id);
    fprintf(f, ",\"reproduced\":%d,\"detail\":", reproduced);
    json_str(f, buf);
    fprintf(f, "}\n");
    fflush(f);
}
void vf_fatal(const char *fmt, ...) {
    va_list ap;
    va_start(ap, fmt);
    fprintf(stderr, "vf: harness failure: ");
    vfprintf(stderr, fmt, ap);
    fprintf(stderr, "\n");
    va_end(ap);
    if (VF.log) {
        fprintf(VF.log, "{\"t\":\"fatal\"}\n");
        fflush(VF.log);
    }
    _exit(2);
}

/* ================================================================== asserts */
jmp_buf vf_assert_jmp;
volatile int vf_assert_armed;
char vf_assert_msg[256];
long vf_assert_hits;
void __assert_fail(const char *expr, const char *file, unsigned int line, const char *func) {
    const char *b = strrchr(file, '/');
    snprintf(vf_assert_msg, sizeof vf_assert_msg, "%s:%u %s: %s", b ? b + 1 : file, line,
             func ? func : "?", expr);
    vf_assert_hits++;
    if (vf_assert_armed) {
        vf_assert_armed = 0;
        longjmp(vf_assert_jmp, 1);
    }
    fprintf(stderr, "vf: unguarded assertion: %s\n", vf_assert_msg);
    if (VF.log) {
        vf_violation("assert", "?", vf_mix(line), "", "%s", vf_assert_msg);
    }
    abort();
}
void vf_assert_report(const char *fn, uint64_t key) {
    /* key the violation by the assertion site, so one site = one finding */
    uint64_t k = 1469598103934665603ULL;
    for (const char *p = vf_assert_msg; *p && *p != ' '; p++) k = (k ^ (unsigned char)*p) * 1099511628211ULL;
    (void)key;
    vf_violation("assert", fn, k, "", "internal safety check fired: %s", vf_assert_msg);
}

/* ================================================================== index reference */
const int REF_PENT_BC[12] = {4, 14, 24, 38, 49, 58, 63, 72, 83, 97, 107, 117};
int ref_is_pent_bc(int bc) {
    for (int i = 0; i < 12; i++)
        if (REF_PENT_BC[i] == bc) return 1;
    return 0;
}
uint64_t vf_make_cell(int res, int bc, const int *digits) {
    uint64_t h = ((uint64_t)1 << 59) | ((uint64_t)res << 52) | ((uint64_t)bc << 45);
    for (int r = 1; r <= 15; r++) h = vf_set_digit(h, r, r <= res ? digits[r - 1] : 7);
    return h;
}
int ref_is_valid_cell(uint64_t h) {
    if (h >> 63) return 0;
    if (VF_MODE(h) != 1) return 0;
    if (VF_RSV(h) != 0) return 0;
    int bc = VF_BC(h);
    if (bc >= 122) return 0;
    int res = VF_RES(h);
    int first_nonzero = 0;
    for (int r = 1; r <= 15; r++) {
        int d = VF_DIGIT(h, r);
        if (r <= res) {
            if (d == 7) return 0;
            if (!first_nonzero && d != 0) first_nonzero = d;
        } else if (d != 7)
            return 0;
    }
    if (ref_is_pent_bc(bc) && first_nonzero == 1) return 0;
    return 1;
}
int ref_is_pentagon(uint64_t h) {
    if (!ref_is_pent_bc(VF_BC(h))) return 0;
    int res = VF_RES(h);
    for (int r = 1; r <= res; r++)
        if (VF_DIGIT(h, r)) return 0;
    return 1;
}
int ref_is_valid_edge(uint64_t e) {
    if (e >> 63) return 0;
    if (VF_MODE(e) != 2) return 0;
    int dir = VF_RSV(e);
    if (dir < 1 || dir > 6) return 0;
    uint64_t o = vf_set_rsv(vf_set_mode(e, 1), 0);
    if (!ref_is_valid_cell(o)) return 0;
    if (ref_is_pentagon(o) && dir == 1) return 0;
    return 1;
}
static int64_t ipow7(int n) {
    int64_t r = 1;
    while (n-- > 0) r *= 7;
    return r;
}
int64_t ref_num_cells(int res) { return 2 + 120 * ipow7(res); }
static int64_t pent_count(int n) { return 1 + 5 * (ipow7(n) - 1) / 6; }
int64_t ref_children_count(uint64_t h, int childRes) {
    int n = childRes - VF_RES(h);
    return ref_is_pentagon(h) ? pent_count(n) : ipow7(n);
}
uint64_t ref_parent(uint64_t h, int parentRes) {
    int res = VF_RES(h);
    for (int r = parentRes + 1; r <= res; r++) h = vf_set_digit(h, r, 7);
    return vf_set_res(h, parentRes);
}
uint64_t ref_child_unrank(uint64_t h, int childRes, int64_t pos) {
    int pres = VF_RES(h);
    int pent = ref_is_pentagon(h);
    uint64_t c = vf_set_res(h, childRes);
    for (int r = pres + 1; r <= childRes; r++) {
        int rem = childRes - r; /* digits after this one */
        int d;
        if (pent) {
            int64_t p = pent_count(rem);
            if (pos < p) {
                d = 0;
            } else {
                pos -= p;
                int64_t hsz = ipow7(rem);
                d = 2 + (int)(pos / hsz);
                pos %= hsz;
                pent = 0;
            }
        } else {
            int64_t hsz = ipow7(rem);
            d = (int)(pos / hsz);
            pos %= hsz;
        }
        c = vf_set_digit(c, r, d);
    }
    return c;
}
int64_t ref_child_rank(uint64_t c, int parentRes) {
    int cres = VF_RES(c);
    uint64_t p = ref_parent(c, parentRes);
    int pent = ref_is_pentagon(p);
    int64_t pos = 0;
    for (int r = parentRes + 1; r <= cres; r++) {
        int rem = cres - r;
        int d = VF_DIGIT(c, r);
        if (pent) {
            if (d != 0) {
                pos += pent_count(rem) + (int64_t)(d - 2) * ipow7(rem);
                pent = 0;
            }
        } else
            pos += (int64_t)d * ipow7(rem);
    }
    return pos;
}
void ref_child_iter_init(ref_child_iter *it, uint64_t parent, int childRes) {
    it->pres = VF_RES(parent);
    it->cres = childRes;
    it->pent = ref_is_pentagon(parent);
    it->done = 0;
    uint64_t c = vf_set_res(parent, childRes);
    for (int r = it->pres + 1; r <= childRes; r++) c = vf_set_digit(c, r, 0);
    it->h = c;
}
void ref_child_iter_next(ref_child_iter *it) {
    uint64_t c = it->h;
    int r = it->cres;
    for (;;) {
        if (r <= it->pres) {
            it->done = 1;
            return;
        }
        int d = VF_DIGIT(c, r) + 1;
        if (d < 7) {
            c = vf_set_digit(c, r, d);
            break;
        }
        c = vf_set_digit(c, r, 0);
        r--;
    }
    if (it->pent) {
        for (int q = it->pres + 1; q <= it->cres; q++) {
            int d = VF_DIGIT(c, q);
            if (d) {
                if (d == 1) c = vf_set_digit(c, q, 2);
                break;
            }
        }
    }
    it->h = c;
}
void ref_enum_res(int res, int mine_only, void (*f)(uint64_t, int64_t, void *), void *u) {
    int64_t idx = 0;
    int zero[1] = {0};
    for (int bc = 0; bc < 122; bc++) {
        uint64_t base = vf_make_cell(0, bc, zero);
        ref_child_iter it;
        for (ref_child_iter_init(&it, base, res); !it.done; ref_child_iter_next(&it), idx++)
            if (!mine_only || VF_MINE(idx)) f(it.h, idx, u);
    }
}
/* ---------------- output validity monitor */
#define NOUTFN 96
static struct {
    const char *fn;
    int64_t n, bad;
} outfn[NOUTFN];
static int noutfn;
void vf_out_cell(const char *fn, uint64_t h, int want_res) {
    int i;
    for (i = 0; i < noutfn; i++)
        if (outfn[i].fn == fn) break;
    if (i == noutfn) {
        for (i = 0; i < noutfn; i++)
            if (!strcmp(outfn[i].fn, fn)) break;
        if (i == noutfn) {
            if (noutfn == NOUTFN) vf_fatal("too many output fns");
            outfn[noutfn].fn = fn;
            outfn[noutfn].n = outfn[noutfn].bad = 0;
            noutfn++;
        }
    }
    outfn[i].n++;
    if (!ref_is_valid_cell(h) || (want_res >= 0 && VF_RES(h) != want_res)) {
        outfn[i].bad++;
        vf_violation("invalid-output", fn, h, "",
                     "%s returned %016" PRIx64 " which is not a valid cell%s", fn, h,
                     ref_is_valid_cell(h) ? " of the requested resolution" : " (documented layout)");
    }
}
void vf_out_flush(void) {
    char name[128];
    for (int i = 0; i < noutfn; i++) {
        snprintf(name, sizeof name, "outcells.%s", outfn[i].fn);
        vf_add(name, outfn[i].n);
    }
}

/* ================================================================== geometry */
V3 v3_from_ll_ld(ld lat, ld lng) {
    ld c = cosl(lat);
    return v3(c * cosl(lng), c * sinl(lng), sinl(lat));
}
V3 v3_from_ll(LatLng g) { return v3_from_ll_ld(g.lat, g.lng); }
LatLng v3_to_ll(V3 v) {
    LatLng g;
    ld n = v3_len(v);
    ld z = v.z / n;
    if (z > 1) z = 1;
    if (z < -1) z = -1;
    g.lat = (double)atan2l(z, sqrtl(v.x * v.x + v.y * v.y) / n);
    g.lng = (double)atan2l(v.y, v.x);
    return g;
}
ld v3_angle(V3 a, V3 b) { return atan2l(v3_len(v3_cross(a, b)), v3_dot(a, b)); }
ld v3_tri_area(V3 a, V3 b, V3 c) {
    ld det = v3_dot(a, v3_cross(v3_sub(b, a), v3_sub(c, a)));
    ld den = 1 + v3_dot(a, b) + v3_dot(b, c) + v3_dot(c, a);
    return 2 * atan2l(det, den);
}
int vf_cell_load(H3Index h, vf_cell *c) {
    CellBoundary b;
    H3Error e = cellToBoundary(h, &b);
    if (e) return (int)e;
    e = cellToLatLng(h, &c->cg);
    if (e) return (int)e;
    if (b.numVerts < 3 || b.numVerts > MAX_CELL_BNDRY_VERTS) return 1000 + b.numVerts;
    c->h = h;
    c->res = VF_RES(h);
    c->n = b.numVerts;
    c->c = v3_from_ll(c->cg);
    c->width = 0;
    for (int i = 0; i < b.numVerts; i++) {
        c->g[i] = b.verts[i];
        c->v[i] = v3_from_ll(b.verts[i]);
        ld a = v3_angle(c->c, c->v[i]);
        if (a > c->width) c->width = a;
    }
    return 0;
}
void vf_chart_init(vf_chart *ch, V3 centre) {
    ch->c = centre;
    V3 up = fabsl(centre.z) < 0.9L ? v3(0, 0, 1) : v3(1, 0, 0);
    ch->e1 = v3_norm(v3_cross(up, centre));
    ch->e2 = v3_cross(centre, ch->e1);
}
ld vf_cell_outside(const vf_cell *c, V3 p) {
    vf_chart ch;
    vf_chart_init(&ch, c->c);
    ld px, py, X[MAX_CELL_BNDRY_VERTS], Y[MAX_CELL_BNDRY_VERTS];
    vf_chart_proj(&ch, p, &px, &py);
    for (int i = 0; i < c->n; i++) vf_chart_proj(&ch, c->v[i], &X[i], &Y[i]);
    int in = 0;
    ld mind = 1e9L;
    for (int i = 0; i < c->n; i++) {
        int j = (i + 1) % c->n;
        ld ax = X[i], ay = Y[i], bx = X[j], by = Y[j];
        if ((ay > py) != (by > py)) {
            ld x = ax + (py - ay) / (by - ay) * (bx - ax);
            if (x > px) in = !in;
        }
        ld dx = bx - ax, dy = by - ay;
        ld t = ((px - ax) * dx + (py - ay) * dy) / (dx * dx + dy * dy);
        if (t < 0) t = 0;
        if (t > 1) t = 1;
        ld qx = ax + t * dx - px, qy = ay + t * dy - py;
        ld d = sqrtl(qx * qx + qy * qy);
        if (d < mind) mind = d;
    }
    return in ? -mind : mind;
}
ld vf_cell_area(const vf_cell *c) {
    ld s = 0;
    for (int i = 0; i < c->n; i++) s += v3_tri_area(c->c, c->v[i], c->v[(i + 1) % c->n]);
    return s;
}
static int cmp_u64(const void *a, const void *b) {
    uint64_t x = *(const uint64_t *)a, y = *(const uint64_t *)b;
    return x < y ? -1 : x > y;
}
int vf_geo_neighbors_c(const vf_cell *c, ld frac, H3Index out[MAX_CELL_BNDRY_VERTS]) {
    int n = 0;
    for (int i = 0; i < c->n; i++) {
        V3 a = c->v[i], d = c->v[(i + 1) % c->n];
        V3 m = v3_norm(v3_add(a, d));
        V3 dir = v3_sub(m, c->c);
        /* the push must exceed what latLngToCell can resolve at this latitude
         * (the tolerance of C02: max(2e-12, 4e-15/cos lat)); otherwise the
         * oracle is undecided for this cell */
        ld coslat = sqrtl(m.x * m.x + m.y * m.y);
        ld tol = coslat > 0 ? 4e-15L / coslat : 1;
        if (tol < 2e-12L) tol = 2e-12L;
        ld f = frac, need = 8 * tol / v3_len(dir);
        if (need > f) f = need;
        if (f > 0.35L) return -2;
        V3 p = v3_norm(v3_add(m, v3_scale(dir, f)));
        LatLng g = v3_to_ll(p);
        H3Index x;
        if (latLngToCell(&g, c->res, &x)) return -1;
        if (x == c->h) continue;
        int dup = 0;
        for (int k = 0; k < n; k++)
            if (out[k] == x) dup = 1;
        if (!dup) out[n++] = x;
    }
    qsort(out, n, 8, cmp_u64);
    return n;
}
int vf_geo_neighbors(H3Index h, H3Index out[MAX_CELL_BNDRY_VERTS]) {
    vf_cell c;
    if (vf_cell_load(h, &c)) return -1;
    return vf_geo_neighbors_c(&c, VF_PUSH_FRAC, out);
}

/* the stretch of A's boundary (in A's counter-clockwise order) whose segments are matched,
 * reversed and within 1e-12 rad, by segments of B */
int vf_shared_stretch(const vf_cell *A, const vf_cell *B, int idx[4]) {
    int own[MAX_CELL_BNDRY_VERTS], cnt = 0;
    for (int s = 0; s < A->n; s++) {
        V3 p = A->v[s], q = A->v[(s + 1) % A->n];
        own[s] = 0;
        for (int t = 0; t < B->n; t++) {
            V3 d1 = v3_sub(p, B->v[(t + 1) % B->n]), d2 = v3_sub(q, B->v[t]);
            if (v3_dot(d1, d1) < 1e-24L && v3_dot(d2, d2) < 1e-24L) own[s] = 1;
        }
        cnt += own[s];
    }
    if (cnt == 0 || cnt > 2) return cnt ? -1 : 0;
    int s0 = -1;
    for (int s = 0; s < A->n; s++)
        if (own[s] && !own[(s + A->n - 1) % A->n]) {
            if (s0 >= 0) return -1; /* two runs */
            s0 = s;
        }
    if (s0 < 0) return -1;
    for (int i = 0; i <= cnt; i++) idx[i] = (s0 + i) % A->n;
    return cnt + 1;
}

/* ================================================================== map */
void vf_map_init(vf_map *m, size_t hint) {
    size_t cap = 64;
    while (cap < hint * 2) cap <<= 1;
    m->cap = cap;
    m->n = 0;
    m->k = calloc(cap, 8);
    m->v = malloc(cap * 8);
    if (!m->k || !m->v) vf_fatal("oom map");
}
void vf_map_free(vf_map *m) {
    free(m->k);
    free(m->v);
    m->k = NULL;
    m->v = NULL;
    m->cap = m->n = 0;
}
void vf_map_clear(vf_map *m) {
    memset(m->k, 0, m->cap * 8);
    m->n = 0;
}
int64_t *vf_map_get(const vf_map *m, uint64_t key) {
    size_t i = vf_mix(key) & (m->cap - 1);
    while (m->k[i]) {
        if (m->k[i] == key) return &m->v[i];
        i = (i + 1) & (m->cap - 1);
    }
    return NULL;
}
static void map_grow(vf_map *m) {
    vf_map o = *m;
    vf_map_init(m, o.cap);
    for (size_t i = 0; i < o.cap; i++)
        if (o.k[i]) vf_map_put(m, o.k[i], o.v[i], NULL);
    free(o.k);
    free(o.v);
}
int64_t *vf_map_put(vf_map *m, uint64_t key, int64_t v, int *isnew) {
    if (key == 0) vf_fatal("map key 0");
    if ((m->n + 1) * 2 > m->cap) map_grow(m);
    size_t i = vf_mix(key) & (m->cap - 1);
    while (m->k[i]) {
        if (m->k[i] == key) {
            if (isnew) *isnew = 0;
            return &m->v[i];
        }
        i = (i + 1) & (m->cap - 1);
    }
    m->k[i] = key;
    m->v[i] = v;
    m->n++;
    if (isnew) *isnew = 1;
    return &m->v[i];
}
/* direct-mapped cache of geometric neighbour lists */
#define ADJC (1u << 16)
static struct adj_ent {
    H3Index h;
    int8_t n;
    H3Index nb[MAX_CELL_BNDRY_VERTS];
} *adjc;
int64_t vf_adj_hits, vf_adj_miss;
int vf_geo_neighbors_cached(H3Index h, H3Index out[MAX_CELL_BNDRY_VERTS]) {
    if (!adjc) adjc = calloc(ADJC, sizeof *adjc);
    struct adj_ent *e = &adjc[vf_mix(h) & (ADJC - 1)];
    if (e->h == h) {
        vf_adj_hits++;
        memcpy(out, e->nb, sizeof e->nb);
        return e->n;
    }
    vf_adj_miss++;
    int n = vf_geo_neighbors(h, out);
    if (n >= 0) {
        e->h = h;
        e->n = (int8_t)n;
        memcpy(e->nb, out, sizeof e->nb);
    }
    return n;
}
int64_t vf_geo_bfs(H3Index origin, int k, vf_map *dist, H3Index **order) {
    size_t cap = 64, n = 0, head = 0;
    H3Index *q = malloc(cap * 8);
    vf_map_clear(dist);
    vf_map_put(dist, origin, 0, NULL);
    q[n++] = origin;
    while (head < n) {
        H3Index h = q[head++];
        int64_t d = *vf_map_get(dist, h);
        if (d >= k) continue;
        H3Index nb[MAX_CELL_BNDRY_VERTS];
        int m = vf_geo_neighbors_cached(h, nb);
        if (m < 0) {
            free(q);
            return m;
        }
        for (int i = 0; i < m; i++) {
            int isnew;
            vf_map_put(dist, nb[i], d + 1, &isnew);
            if (isnew) {
                if (n == cap) {
                    cap *= 2;
                    q = realloc(q, cap * 8);
                }
                q[n++] = nb[i];
            }
        }
    }
    if (order)
        *order = q;
    else
        free(q);
    return (int64_t)n;
}

/* ---------------- whole-resolution graph on geometric adjacency */
static void rg_collect(uint64_t h, int64_t idx, void *u) {
    vf_resgraph *g = u;
    g->cells[idx] = h;
}
int vf_resgraph_build(vf_resgraph *g, int res) {
    g->res = res;
    g->n = (int32_t)ref_num_cells(res);
    g->cells = malloc((size_t)g->n * 8);
    g->adj = malloc((size_t)g->n * 6 * sizeof(int32_t));
    vf_map_init(&g->index, (size_t)g->n);
    ref_enum_res(res, 0, rg_collect, g);
    for (int32_t i = 0; i < g->n; i++) vf_map_put(&g->index, g->cells[i], i, NULL);
    for (int32_t i = 0; i < g->n; i++) {
        H3Index nb[MAX_CELL_BNDRY_VERTS];
        int m = vf_geo_neighbors(g->cells[i], nb);
        if (m < 0 || m > 6) return -1;
        for (int k = 0; k < 6; k++) {
            int64_t *ix = k < m ? vf_map_get(&g->index, nb[k]) : NULL;
            if (k < m && !ix) return -1;
            g->adj[(size_t)i * 6 + k] = ix ? (int32_t)*ix : -1;
        }
    }
    return 0;
}
void vf_resgraph_bfs(const vf_resgraph *g, int32_t src, int16_t *dist, int32_t *queue) {
    for (int32_t i = 0; i < g->n; i++) dist[i] = -1;
    int32_t head = 0, tail = 0;
    dist[src] = 0;
    queue[tail++] = src;
    while (head < tail) {
        int32_t u = queue[head++];
        for (int k = 0; k < 6; k++) {
            int32_t v = g->adj[(size_t)u * 6 + k];
            if (v >= 0 && dist[v] < 0) {
                dist[v] = (int16_t)(dist[u] + 1);
                queue[tail++] = v;
            }
        }
    }
}

/* ================================================================== generators */
V3 VF_ICO_V[12];
V3 VF_ICO_F[20];
int VF_ICO_FV[20][3];
int VF_ICO_E[30][2];
static int ico_ready;
void vf_ico_init(void) {
    if (ico_ready) return;
    H3Index p[12];
    if (getPentagons(0, p)) vf_fatal("getPentagons(0)");
    for (int i = 0; i < 12; i++) {
        LatLng g;
        if (cellToLatLng(p[i], &g)) vf_fatal("cellToLatLng(pentagon)");
        VF_ICO_V[i] = v3_from_ll(g);
    }
    int ne = 0, nf = 0;
    for (int i = 0; i < 12; i++)
        for (int j = i + 1; j < 12; j++)
            if (v3_angle(VF_ICO_V[i], VF_ICO_V[j]) < 1.2L) {
                if (ne < 30) {
                    VF_ICO_E[ne][0] = i;
                    VF_ICO_E[ne][1] = j;
                }
                ne++;
                for (int k = j + 1; k < 12; k++)
                    if (v3_angle(VF_ICO_V[i], VF_ICO_V[k]) < 1.2L &&
                        v3_angle(VF_ICO_V[j], VF_ICO_V[k]) < 1.2L) {
                        if (nf < 20) {
                            VF_ICO_FV[nf][0] = i;
                            VF_ICO_FV[nf][1] = j;
                            VF_ICO_FV[nf][2] = k;
                            VF_ICO_F[nf] = v3_norm(
                                v3_add(VF_ICO_V[i], v3_add(VF_ICO_V[j], VF_ICO_V[k])));
                        }
                        nf++;
                    }
            }
    if (ne != 30 || nf != 20) vf_fatal("icosahedron from pentagon centres: %d edges %d faces", ne, nf);
    ico_ready = 1;
}
LatLng vf_rand_ll(vf_rng *r) {
    LatLng g;
    g.lat = asin(2 * vf_unit(r) - 1);
    g.lng = (2 * vf_unit(r) - 1) * M_PI;
    return g;
}
H3Index vf_rand_cell(vf_rng *r, int res) {
    int bc = (int)vf_below(r, 122);
    if (vf_below(r, 4) == 0) bc = REF_PENT_BC[vf_below(r, 12)];
    int d[15];
    int lead = vf_below(r, 4) == 0 ? (int)vf_below(r, (uint64_t)res + 1) : 0;
    for (int i = 0; i < res; i++) d[i] = i < lead ? 0 : (int)vf_below(r, 7);
    if (ref_is_pent_bc(bc)) {
        for (int i = 0; i < res; i++)
            if (d[i]) {
                if (d[i] == 1) d[i] = 2 + (int)vf_below(r, 5);
                break;
            }
    }
    return vf_make_cell(res, bc, d);
}
/* Cells with a digit pattern: long runs of one digit (mostly 0) under two pentagon base cells and one hexagon base cell.
 * The centre descendants of a coarse cell, (p,0,...,0), have a non-zero digit only in the high part of the 45 digit bits;
 * (0,..,0,p,0 x10) and (0,..,0,p,0 x11) put the only non-zero digit just above / across bit 32 of the right-aligned digit
 * field; runs of 6 and of 1 exercise the carry / rotation chains.  Word-at-a-time or narrowed rewrites of the digit helpers
 * (leading digit, isPentagon, child position) are wrong exactly on such cells, which neither coarse enumeration, pentagon
 * neighbourhoods (0,...,0,d) nor uniform sampling produce. */
int vf_pattern_cells(int res, H3Index *out, int cap) {
    int n = 0;
    if (res < 2) return 0;
    int bcs[3] = {REF_PENT_BC[res % 12], REF_PENT_BC[(res + 5) % 12], (res * 7 + 3) % 122};
    if (ref_is_pent_bc(bcs[2])) bcs[2] = (bcs[2] + 1) % 122;
    for (int b = 0; b < 3; b++) {
        int dg[15];
        static const int P[3] = {2, 4, 5};
        for (int k = 0; k < 3; k++) { /* (p,0,...,0) and (p,0,...,0,t) */
            memset(dg, 0, sizeof dg);
            dg[0] = P[k];
            if (n < cap) out[n++] = vf_make_cell(res, bcs[b], dg);
            dg[res - 1] = 1 + 2 * k > 6 ? 3 : 1 + 2 * k;
            if (res > 2 && n < cap) out[n++] = vf_make_cell(res, bcs[b], dg);
        }
        for (int back = 10; back <= 11; back++) /* the only non-zero digit sits `back` zeros above the finest digit */
            if (res - back >= 1)
                for (int k = 1; k < 3; k++) {
                    memset(dg, 0, sizeof dg);
                    dg[res - back - 1] = P[k];
                    if (n < cap) out[n++] = vf_make_cell(res, bcs[b], dg);
                }
        for (int d = 1; d <= 6; d += 5) { /* (3,d,d,...,d): runs of 1 and of 6 */
            for (int i = 0; i < res; i++) dg[i] = d;
            dg[0] = 3;
            if (n < cap) out[n++] = vf_make_cell(res, bcs[b], dg);
        }
    }
    int m = 0;
    for (int i = 0; i < n; i++)
        if (ref_is_valid_cell(out[i])) out[m++] = out[i];
    return m;
}
/* Cells on the seams between the territories of neighbouring base cells (the descendants of a res-0 cell form a fractal
 * region: its border is not the res-0 hexagon edge).  Found by bisection along a segment from the centre of base cell A
 * towards (a point near) the centre of a neighbouring base cell B: the last point whose cell still has base cell A and the
 * first whose cell has not.  Crossing such a seam is where index arithmetic changes the base cell and re-orients every
 * digit down to the finest one. */
int vf_basecell_seam_cells(int res, int npairs, H3Index *out, int cap) {
    int n = 0, zero[15] = {0};
    if (res < 1) return 0;
    for (int k = 0; k < npairs && n + 2 <= cap; k++) {
        int bcA = (res * 13 + k * 17 + 5) % 122;
        H3Index A = vf_make_cell(0, bcA, zero), nb[MAX_CELL_BNDRY_VERTS];
        vf_cell ca, cb, cc;
        int m = vf_geo_neighbors(A, nb);
        if (m < 5 || vf_cell_load(A, &ca)) continue;
        if (vf_cell_load(nb[(res + k) % m], &cb) || vf_cell_load(nb[(res + k + 1) % m], &cc)) continue;
        ld mix = ((k * 7 + res) % 5) * 0.15L; /* aim at B's centre or up to 60 % of the way towards the next neighbour's */
        V3 a = ca.c, b = v3_norm(v3_add(v3_scale(cb.c, 1 - mix), v3_scale(cc.c, mix)));
        ld lo = 0, hi = 1;
        H3Index hlo = 0, hhi = 0, h;
        for (int it = 0; it < 70; it++) {
            ld t = 0.5L * (lo + hi);
            LatLng g = v3_to_ll(v3_norm(v3_add(v3_scale(a, 1 - t), v3_scale(b, t))));
            if (latLngToCell(&g, res, &h)) break;
            if (VF_BC(h) == bcA) lo = t, hlo = h;
            else hi = t, hhi = h;
        }
        if (hlo) out[n++] = hlo;
        if (hhi) out[n++] = hhi;
    }
    return n;
}
int vf_special_seeds(int res, int nper, H3Index *out, int cap) {
    int n = 0;
    H3Index h;
    vf_ico_init();
    H3Index p[12];
    if (!getPentagons(res, p))
        for (int i = 0; i < 12 && n < cap; i++) out[n++] = p[i];
    n += vf_pattern_cells(res, out + n, cap - n > 40 ? 40 : cap - n);
    n += vf_basecell_seam_cells(res, 8, out + n, cap - n > 16 ? 16 : cap - n);
    for (int e = 0; e < 30; e++) {
        V3 a = VF_ICO_V[VF_ICO_E[e][0]], b = VF_ICO_V[VF_ICO_E[e][1]];
        for (int i = 0; i < nper && n < cap; i++) {
            ld t = (i + 0.5L) / nper;
            /* pseudo-irregular spacing so that different resolutions hit different offsets */
            t += 0.31L * sinl(7.0L * e + 3.0L * i + res) / nper;
            V3 q = v3_norm(v3_add(v3_scale(a, 1 - t), v3_scale(b, t)));
            LatLng g = v3_to_ll(q);
            if (!latLngToCell(&g, res, &h)) out[n++] = h;
        }
    }
    for (int f = 0; f < 20 && n < cap; f++) {
        LatLng g = v3_to_ll(VF_ICO_F[f]);
        if (!latLngToCell(&g, res, &h)) out[n++] = h;
    }
    for (int s = -1; s <= 1 && n < cap; s += 2) {
        LatLng g = {s * M_PI_2, 0.3};
        if (!latLngToCell(&g, res, &h)) out[n++] = h;
    }
    for (int i = 0; i < nper && n < cap; i++) {
        LatLng g = {-1.4 + 2.8 * (i + 0.37) / nper, M_PI};
        if (!latLngToCell(&g, res, &h)) out[n++] = h;
    }
    /* dedupe, keep order */
    int m = 0;
    for (int i = 0; i < n; i++) {
        int dup = 0;
        for (int j = 0; j < m; j++)
            if (out[j] == out[i]) dup = 1;
        if (!dup) out[m++] = out[i];
    }
    return m;
}
/* cells on the 30 icosahedron edges at nper seed-dependent parameters per edge: the cell that contains the point on the edge and
 * the cells that contain the point pushed 0.7 of an average cell width to either side (so that cells whose *edges* or *vertices*
 * lie on the icosahedron edge are met as well as cells it cuts through).  Not deduplicated. */
int vf_edge_walk_cells(int res, int nper, vf_rng *r, H3Index *out, int cap) {
    int n = 0;
    vf_ico_init();
    ld w = 0.35L / powl(2.6457513L, res); /* ~ average cell width in radians */
    for (int e = 0; e < 30; e++) {
        V3 a = VF_ICO_V[VF_ICO_E[e][0]], b = VF_ICO_V[VF_ICO_E[e][1]];
        V3 nrm = v3_norm(v3_cross(a, b));
        for (int i = 0; i < nper; i++) {
            ld t = 0.01L + 0.98L * (ld)vf_unit(r);
            V3 m = v3_norm(v3_add(v3_scale(a, 1 - t), v3_scale(b, t)));
            for (int side = -1; side <= 1 && n < cap; side++) {
                LatLng g = v3_to_ll(v3_norm(v3_add(m, v3_scale(nrm, side * 0.7L * w))));
                H3Index h;
                if (!latLngToCell(&g, res, &h)) out[n++] = h;
            }
        }
    }
    return n;
}
/* cells at the quarter points and around the midpoint of each of the 30 icosahedron edges, on the edge and 1e-6 .. 1e-3 rad
 * to either side of it (the face-assignment slivers: where a point is attributed to one of two faces) */
int vf_edge_offset_seeds(int res, H3Index *out, int cap) {
    static const ld T[7] = {0.25L, 0.496L, 0.498L, 0.5L, 0.502L, 0.504L, 0.75L};
    static const ld OFF[19] = {0, 1e-6L, -1e-6L, 3e-6L, -3e-6L, 1e-5L, -1e-5L, 2e-5L, -2e-5L, 3e-5L, -3e-5L, 5e-5L, -5e-5L, 1e-4L, -1e-4L, 3e-4L, -3e-4L, 1e-3L, -1e-3L};
    int n = 0;
    vf_ico_init();
    for (int e = 0; e < 30; e++) {
        V3 a = VF_ICO_V[VF_ICO_E[e][0]], b = VF_ICO_V[VF_ICO_E[e][1]];
        V3 nrm = v3_norm(v3_cross(a, b));
        for (int ti = 0; ti < 7; ti++)
            for (int oi = 0; oi < 19 && n < cap; oi++) {
                V3 m = v3_norm(v3_add(v3_scale(a, 1 - T[ti]), v3_scale(b, T[ti])));
                LatLng g = v3_to_ll(v3_norm(v3_add(m, v3_scale(nrm, OFF[oi]))));
                H3Index h;
                if (!latLngToCell(&g, res, &h)) out[n++] = h;
            }
    }
    return n;
}
uint64_t vf_hostile_index(vf_rng *r) {
    int res = (int)vf_below(r, 16);
    uint64_t h = vf_rand_cell(r, res);
    switch (vf_below(r, 16)) {
        case 0:
            return vf_u64(r);
        case 1:
            return h ^ ((uint64_t)1 << vf_below(r, 64));
        case 2:
            return h ^ ((uint64_t)1 << vf_below(r, 64)) ^ ((uint64_t)1 << vf_below(r, 64));
        case 3:
            return h ^ ((uint64_t)1 << vf_below(r, 64)) ^ ((uint64_t)1 << vf_below(r, 64)) ^
                   ((uint64_t)1 << vf_below(r, 64));
        case 4:
            return vf_set_mode(h, (int)vf_below(r, 16));
        case 5:
            return vf_set_rsv(h, (int)vf_below(r, 8));
        case 6:
            return vf_set_rsv(vf_set_mode(h, (int)vf_below(r, 6)), (int)vf_below(r, 8));
        case 7:
            if (res) h = vf_set_digit(h, 1 + (int)vf_below(r, res), 7);
            return h;
        case 8: { /* deleted sub-sequence under a pentagon */
            uint64_t c = h & ~((uint64_t)127 << 45);
            c |= (uint64_t)REF_PENT_BC[vf_below(r, 12)] << 45;
            if (res) {
                int z = (int)vf_below(r, res);
                for (int q = 1; q <= z; q++) c = vf_set_digit(c, q, 0);
                c = vf_set_digit(c, z + 1, 1);
            }
            return c;
        }
        case 9:
            return (h & ~((uint64_t)127 << 45)) | ((uint64_t)(122 + vf_below(r, 6)) << 45);
        case 10:
            return vf_below(r, 4) ? (uint64_t)vf_below(r, 4) : 0;
        case 11:
            return h | ((uint64_t)1 << 63);
        case 12: /* after-resolution digit not 7 */
            if (res < 15) h = vf_set_digit(h, res + 1 + (int)vf_below(r, 15 - res), (int)vf_below(r, 7));
            return h;
        case 13: /* edge / vertex shaped */
            return vf_set_rsv(vf_set_mode(h, vf_below(r, 2) ? 2 : 4), (int)vf_below(r, 8));
        default:
            return h;
    }
}
int vf_hostile_int(vf_rng *r) {
    /* incl. values that look in range after truncation to 4, 8 or 16 bits, or after a sign flip */
    static const int sp[] = {-1, -2, 0, 1, 15, 16, 17, 2147483647, -2147483647 - 1, 2147483646, 100, -100, 255, 256, 65536,
                             257, 260, 271, 272, 512, 527, 65537, 65551, 1 << 20, (1 << 24) + 7, (1 << 30) + 15, -15, -16, -256, -65536, 31, 32, 47, 128, 143};
    switch (vf_below(r, 4)) {
        case 0:
            return (int)(uint32_t)vf_u64(r);
        case 1:
            return sp[vf_below(r, sizeof sp / sizeof sp[0])];
        default:
            return (int)vf_below(r, 16);
    }
}
double vf_hostile_double(vf_rng *r) {
    static const double sp[] = {0.0, -0.0, 1e300, -1e300, 2.2250738585072014e-308, 1e-320, 1.5707963267948966,
                                -1.5707963267948966, 3.141592653589793, -3.141592653589793, 6.283185307179586,
                                1e18, -1e18, 4e15,
                                /* large enough that a sum or a product of two of them overflows */
                                1.7976931348623157e308, -1.7976931348623157e308, 1e308, -1e308, 9e307, -9e307, 1.4e154, -1.4e154};
    switch (vf_below(r, 8)) {
        case 0:
            return NAN;
        case 1:
            return vf_below(r, 2) ? INFINITY : -INFINITY;
        case 2:
            return sp[vf_below(r, sizeof sp / sizeof sp[0])];
        case 3: {
            uint64_t b = vf_u64(r);
            double d;
            memcpy(&d, &b, 8);
            return d;
        }
        case 4:
            return (vf_unit(r) * 2 - 1) * 1e4;
        default:
            return (vf_unit(r) * 2 - 1) * M_PI;
    }
}

/* ================================================================== buffers */
#if defined(__SANITIZE_ADDRESS__)
#define VF_ASAN 1
#else
#define VF_ASAN 0
#endif
#define CAN 32
void *vf_buf_new(size_t bytes, int fill) {
#if VF_ASAN
    void *p = malloc(bytes);
    if (!p && bytes) vf_fatal("oom buf");
    if (p) memset(p, fill, bytes);
    return p;
#else
    unsigned char *b = malloc(bytes + 2 * CAN + 16);
    if (!b) vf_fatal("oom buf");
    memcpy(b, &bytes, sizeof bytes);
    memset(b + 16, 0xA5, CAN);
    memset(b + 16 + CAN, fill, bytes);
    memset(b + 16 + CAN + bytes, 0x5A, CAN);
    return b + 16 + CAN;
#endif
}
int vf_buf_check(void *p) {
#if VF_ASAN
    (void)p;
    return 0;
#else
    unsigned char *u = (unsigned char *)p - CAN - 16;
    size_t bytes;
    memcpy(&bytes, u, sizeof bytes);
    for (int i = 0; i < CAN; i++)
        if (u[16 + i] != 0xA5 || u[16 + CAN + bytes + i] != 0x5A) return 1;
    return 0;
#endif
}
void vf_buf_free(void *p) {
#if VF_ASAN
    free(p);
#else
    if (p) free((unsigned char *)p - CAN - 16);
#endif
}

/* ================================================================== allocator ledger */
#ifdef VF_ALLOC
vfa_state_t VFA;
static pthread_mutex_t vfa_mu = PTHREAD_MUTEX_INITIALIZER;
#define LCAP (1u << 16)
static void *lset[LCAP];
static int lset_put(void *p) {
    size_t i = vf_mix((uint64_t)(uintptr_t)p) & (LCAP - 1);
    for (size_t n = 0; n < LCAP; n++, i = (i + 1) & (LCAP - 1))
        if (!lset[i] || lset[i] == (void *)1) {
            lset[i] = p;
            return 0;
        }
    return -1;
}
static int lset_del(void *p) {
    size_t i = vf_mix((uint64_t)(uintptr_t)p) & (LCAP - 1);
    for (size_t n = 0; n < LCAP && lset[i]; n++, i = (i + 1) & (LCAP - 1))
        if (lset[i] == p) {
            lset[i] = (void *)1; /* tombstone */
            return 0;
        }
    return -1;
}
void vfa_reset(void) {
    pthread_mutex_lock(&vfa_mu);
    /* blocks still live are deliberately forgotten (the caller has already
     * reported them); they are not freed, they may be referenced. */
    memset(lset, 0, sizeof lset);
    memset(&VFA, 0, sizeof VFA);
    pthread_mutex_unlock(&vfa_mu);
}
static int vfa_should_fail(void) {
    VFA.allocs++;
    if (VFA.fail_at && (VFA.allocs == VFA.fail_at || (VFA.fail_after && VFA.allocs > VFA.fail_at))) {
        VFA.failed++;
        return 1;
    }
    return 0;
}
static void *vfa_track(void *p) {
    if (p) {
        VFA.live++;
        if (lset_put(p)) vf_fatal("ledger full");
    }
    return p;
}
void *vfa_malloc(size_t n) {
    pthread_mutex_lock(&vfa_mu);
    void *p = NULL;
    if (n == 0) VFA.zero_size++;
    if (!vfa_should_fail()) p = vfa_track(malloc(n));
    pthread_mutex_unlock(&vfa_mu);
    return p;
}
void *vfa_calloc(size_t a, size_t b) {
    pthread_mutex_lock(&vfa_mu);
    void *p = NULL;
    if (a == 0 || b == 0) VFA.zero_size++;
    if (!vfa_should_fail()) p = vfa_track(calloc(a, b));
    pthread_mutex_unlock(&vfa_mu);
    return p;
}
void *vfa_realloc(void *q, size_t n) {
    pthread_mutex_lock(&vfa_mu);
    void *p = NULL;
    if (!vfa_should_fail()) {
        if (q && lset_del(q)) {
            VFA.double_free++;
        } else {
            if (q) VFA.live--;
            p = vfa_track(realloc(q, n));
        }
    }
    pthread_mutex_unlock(&vfa_mu);
    return p;
}
void vfa_free(void *p) {
    if (!p) return;
    pthread_mutex_lock(&vfa_mu);
    VFA.frees++;
    if (lset_del(p)) {
        VFA.double_free++; /* not forwarded: the run continues and reports it */
        pthread_mutex_unlock(&vfa_mu);
        return;
    }
    VFA.live--;
    pthread_mutex_unlock(&vfa_mu);
    free(p);
}
#endif

/* ============================================ table-coverage hook (H3_VERIF_HOOKS)
 * The library (built with -DH3_VERIF_HOOKS) reports every look-up into its topology tables: (table, row, col).
 * The kit keeps one bit per table cell (which cells did this workload reach — the reach of the check over the tables that
 * the properties' anchors name) and checks row/col against the table's dimensions: an index outside them is an
 * intra-object overflow that red-zone sanitizers cannot see (digit 7 into a [7][7] table lands in the next row). */
#if defined(H3_VERIF_HOOKS) && __has_include("h3VerifHooks.h") /* a tree older than the hook commit has no table coverage */
#include "h3VerifHooks.h"
/* strict = (row, col) are the very indexes the library uses on the table, so a value outside the dimensions is an
 * out-of-bounds look-up; otherwise they only *describe* the look-up's context (leading digit, rotation count, ...) and
 * a value outside the expected range (e.g. leading digit 7 of an invalid cell) is merely counted. */
static const struct {
    const char *name;
    int rows, cols, strict;
} VT[H3VT_COUNT] = {
    [H3VT_BASE_CELL_NEIGHBORS] = {"baseCellNeighbors@h3NeighborRotations", 122, 7, 1},
    [H3VT_NEW_DIGIT_II] = {"NEW_DIGIT_II@h3NeighborRotations", 7, 7, 1},
    [H3VT_NEW_DIGIT_III] = {"NEW_DIGIT_III@h3NeighborRotations", 7, 7, 1},
    [H3VT_LOCALIJ_BC_ROTS] = {"baseCellNeighbor60CCWRots@cellToLocalIjk", 122, 7, 1},
    [H3VT_LOCALIJ_BC_ROTS_INV] = {"baseCellNeighbor60CCWRots@localIjkToCell", 122, 7, 1},
    [H3VT_FAILED_DIRECTIONS] = {"FAILED_DIRECTIONS@cellToLocalIjk", 7, 7, 1},
    [H3VT_PENTAGON_ROTATIONS] = {"PENTAGON_ROTATIONS@cellToLocalIjk", 7, 7, 1},
    [H3VT_PENTAGON_ROTATIONS_REV] = {"PENTAGON_ROTATIONS_REVERSE@localIjkToCell", 7, 7, 1},
    [H3VT_PENTAGON_ROTATIONS_REV_POLAR] = {"PENTAGON_ROTATIONS_REVERSE_POLAR@localIjkToCell", 7, 7, 1},
    [H3VT_PENTAGON_ROTATIONS_REV_NONPOLAR] = {"PENTAGON_ROTATIONS_REVERSE_NONPOLAR@localIjkToCell", 7, 7, 1},
    [H3VT_FACE_IJK_BASE_CELLS] = {"faceIjkBaseCells@_faceIjkToBaseCell", 20, 27, 1},
    [H3VT_BASE_CELL_FACE_ROT] = {"faceIjkBaseCells@_baseCellToCCWrot60(baseCell,face)", 122, 20, 0},
    [H3VT_OVERAGE_QUADRANT] = {"faceNeighbors@_adjustOverageClassII", 20, 4, 1},
    [H3VT_OVERAGE_PENT_LEADING4] = {"pentLeading4@_adjustOverageClassII(face)", 20, 1, 0},
    [H3VT_OVERAGE_RES] = {"maxDimByCIIres@_adjustOverageClassII(res,substrate)", 17, 2, 1},
    [H3VT_ADJ_FACE_DIR_PENT] = {"adjacentFaceDir@_faceIjkPentToCellBoundary", 20, 20, 1},
    [H3VT_ADJ_FACE_DIR_HEX] = {"adjacentFaceDir@_faceIjkToCellBoundary", 20, 20, 1},
    [H3VT_PENT_DIRECTION_FACES] = {"pentagonDirectionFaces@vertexRotations(pentagon,digit*2+offHomeFace)", 12, 16, 0},
    [H3VT_VERTEX_NUM_FOR_DIRECTION] = {"directionToVertexNum@vertexNumForDirection(pent*7+dir,rotations)", 14, 6, 0},
    [H3VT_DIRECTION_FOR_VERTEX_NUM] = {"vertexNumToDirection@directionForVertexNum(pent*6+vertexNum,rotations)", 12, 6, 0},
};
#define VT_MAXBYTES ((122 * 20 + 7) / 8)
static unsigned char vt_bits[H3VT_COUNT][VT_MAXBYTES];
static long vt_calls, vt_oob, vt_desc_out;
static int vt_oob_t = -1, vt_oob_r, vt_oob_c;
static char vt_oob_case[256];
void h3VerifHit(int t, int row, int col) {
    __atomic_fetch_add(&vt_calls, 1, __ATOMIC_RELAXED);
    if (t < 0 || t >= H3VT_COUNT) return;
    if (row < 0 || row >= VT[t].rows || col < 0 || col >= VT[t].cols) {
        if (!VT[t].strict) {
            __atomic_fetch_add(&vt_desc_out, 1, __ATOMIC_RELAXED);
            return;
        }
        if (__atomic_fetch_add(&vt_oob, 1, __ATOMIC_RELAXED) == 0) {
            vt_oob_t = t, vt_oob_r = row, vt_oob_c = col;
            snprintf(vt_oob_case, sizeof vt_oob_case, "%s", vf_case_get());
        }
        return;
    }
    int c = row * VT[t].cols + col;
    unsigned char m = (unsigned char)(1u << (c & 7));
    if (!(vt_bits[t][c >> 3] & m)) __atomic_fetch_or(&vt_bits[t][c >> 3], m, __ATOMIC_RELAXED);
}
static void vt_dump(void) {
    if (vt_oob) {
        char d[512];
        snprintf(d, sizeof d, "table index outside the table's dimensions: %s[%d][%d] (dimensions [%d][%d]); %ld such look-ups, first in case [%s]",
                 VT[vt_oob_t].name, vt_oob_r, vt_oob_c, VT[vt_oob_t].rows, VT[vt_oob_t].cols, vt_oob, vt_oob_case);
        vf_violation_spec(vt_oob_case, "table-index-oob", VT[vt_oob_t].name, vf_mix((uint64_t)vt_oob_t * 1000003 + (uint64_t)vt_oob_r * 1009 + (uint64_t)vt_oob_c), "", "%s", d);
    }
    if (!vt_calls) return;
    for (int t = 0; t < H3VT_COUNT; t++) {
        int n = VT[t].rows * VT[t].cols;
        fprintf(VF.log, "{\"t\":\"bits\",\"k\":");
        json_str(VF.log, VT[t].name);
        fprintf(VF.log, ",\"rows\":%d,\"cols\":%d,\"hex\":\"", VT[t].rows, VT[t].cols);
        for (int b = 0; b < (n + 7) / 8; b++) fprintf(VF.log, "%02x", vt_bits[t][b]);
        fprintf(VF.log, "\"}\n");
    }
    fprintf(VF.log, "{\"t\":\"stat\",\"k\":\"tablehook.lookups\",\"v\":%ld}\n", vt_calls);
    if (vt_desc_out) fprintf(VF.log, "{\"t\":\"stat\",\"k\":\"tablehook.descriptor_out_of_range\",\"v\":%ld}\n", vt_desc_out);
}
#else
static void vt_dump(void) {}
#endif

/* ================================================================== main */
static void dump_and_close(void) {
    vf_out_flush();
    vt_dump();
    for (int i = 0; i < nctr; i++) {
        if (ctr[i].ismax) {
            if (ctr[i].m > -INFINITY) {
                fprintf(VF.log, "{\"t\":\"max\",\"k\":");
                json_str(VF.log, ctr[i].name);
                fprintf(VF.log, ",\"v\":%.6g}\n", ctr[i].m);
            }
        } else {
            fprintf(VF.log, "{\"t\":\"stat\",\"k\":");
            json_str(VF.log, ctr[i].name);
            fprintf(VF.log, ",\"v\":%" PRId64 "}\n", ctr[i].v);
        }
    }
    fprintf(VF.log, "{\"t\":\"max\",\"k\":\"watchdog.max_stuck_ticks_of_%ds\",\"v\":%d}\n", wd_tick_s, wd_stuck_max);
    fprintf(VF.log, "{\"t\":\"done\",\"distinct\":%zu,\"saturated\":%d,\"violations\":%ld,\"assert_hits\":%ld}\n",
            dn, dsat, VF.nviol, vf_assert_hits);
    fflush(VF.log);
}
static int merge_keys(int n, char **files) {
    size_t cap = 1 << 20, m = 0;
    uint64_t *a = malloc(cap * 8);
    for (int i = 0; i < n; i++) {
        FILE *f = fopen(files[i], "rb");
        if (!f) continue;
        uint64_t buf[4096];
        size_t k;
        while ((k = fread(buf, 8, 4096, f)) > 0) {
            if (m + k > cap) {
                while (m + k > cap) cap *= 2;
                a = realloc(a, cap * 8);
                if (!a) return 2;
            }
            memcpy(a + m, buf, k * 8);
            m += k;
        }
        fclose(f);
    }
    qsort(a, m, 8, cmp_u64);
    size_t d = 0;
    for (size_t i = 0; i < m; i++)
        if (i == 0 || a[i] != a[i - 1]) d++;
    printf("%zu\n", d);
    return 0;
}
static const char *g_logpath;
/* writes the closing events; vf_main calls it, and a phase whose engine ends the process itself (libFuzzer calls exit)
 * registers it with atexit — it runs once */
void vf_finish(void) {
    static int done;
    if (done) return;
    done = 1;
    vf_case("finished");
    dump_and_close();
    if (g_logpath && dset) {
        char kp[4096];
        snprintf(kp, sizeof kp, "%s.keys", g_logpath);
        FILE *f = fopen(kp, "wb");
        if (f) {
            for (size_t i = 0; i < DCAP; i++)
                if (dset[i]) fwrite(&dset[i], 8, 1, f);
            fclose(f);
        }
    }
}
int vf_main(int argc, char **argv, const char *prop, void (*run)(void),
            void (*replay)(const char *)) {
    const char *logpath = NULL, *rspec = NULL;
    VF.prop = prop;
    VF.seed = 1;
    VF.nshards = 1;
    VF.slot = slot_private;
    VF.phase = "";
    for (int i = 1; i < argc; i++) {
        if (!strcmp(argv[i], "--merge-keys")) return merge_keys(argc - i - 1, argv + i + 1);
        if (!strcmp(argv[i], "--tier") && i + 1 < argc)
            VF.thorough = !strcmp(argv[++i], "thorough");
        else if (!strcmp(argv[i], "--seed") && i + 1 < argc)
            VF.seed = strtoull(argv[++i], NULL, 0);
        else if (!strcmp(argv[i], "--shard") && i + 1 < argc) {
            if (sscanf(argv[++i], "%d/%d", &VF.shard, &VF.nshards) != 2 || VF.nshards < 1 ||
                VF.shard < 0 || VF.shard >= VF.nshards)
                vf_fatal("bad --shard");
        } else if (!strcmp(argv[i], "--log") && i + 1 < argc)
            logpath = argv[++i];
        else if (!strcmp(argv[i], "--replay") && i + 1 < argc)
            rspec = argv[++i];
        else if (!strcmp(argv[i], "--phase") && i + 1 < argc)
            VF.phase = argv[++i];
        else if (!strcmp(argv[i], "--aux") && i + 1 < argc)
            VF.aux = argv[++i];
        else
            vf_fatal("unknown argument %s", argv[i]);
    }
    g_logpath = logpath;
    if (logpath) {
        VF.log = fopen(logpath, "w");
        if (!VF.log) vf_fatal("cannot open log %s", logpath);
        char sp[4096];
        snprintf(sp, sizeof sp, "%s.slot", logpath);
        int fd = open(sp, O_RDWR | O_CREAT | O_TRUNC, 0644);
        if (fd >= 0 && ftruncate(fd, 4096) == 0) {
            void *m = mmap(NULL, 4096, PROT_READ | PROT_WRITE, MAP_SHARED, fd, 0);
            if (m != MAP_FAILED) VF.slot = m;
        }
        if (fd >= 0) close(fd);
    } else
        VF.log = stdout;
    setvbuf(VF.log, NULL, _IOFBF, 1 << 16);
    vf_case("startup");
    /* default budget per case: 40 x 10 = 400 CPU-seconds (thorough 120 x 10); monitors with their own needs call vf_watchdog again */
    /* VF_WD_TICKS: calibration runs against deliberately broken trees (mutants/) shorten the budget; checks never set it */
    if (!getenv("VF_NO_WATCHDOG")) vf_watchdog(10, getenv("VF_WD_TICKS") ? atoi(getenv("VF_WD_TICKS")) : VF.thorough ? 120 : 40);
    if (rspec) {
        if (!replay) vf_fatal("no replay support");
        vf_case("%s", rspec);
        replay(rspec);
    } else
        run();
    vf_finish();
    return VF.nviol ? 1 : 0;
}
