/* mon_C20 — string form of an index round-trips exactly (DESIGN.md §5 C20).
 *
 * Oracle: own hexadecimal formatter; exact-size heap buffers (ASan red zones)
 * pre-filled with 0xCC so that "untouched" and "nothing after the NUL" are
 * byte facts.  Parsing is judged only where the property speaks: canonical
 * h3ToString output must parse back to h, and text whose first byte is not a
 * hex digit / whitespace / sign must fail without touching the output slot.
 */
#include "vf.h"
#include <errno.h>

static int fmt_hex(uint64_t h, char *out) { /* lowercase, unpadded */
    char tmp[17];
    int n = 0;
    do {
        tmp[n++] = "0123456789abcdef"[h & 15];
        h >>= 4;
    } while (h);
    for (int i = 0; i < n; i++) out[i] = tmp[n - 1 - i];
    out[n] = 0;
    return n;
}

static void case_tostr(uint64_t h, int sz) {
    vf_case("tostr %016" PRIx64 " %d", h, sz);
    uint64_t key = vf_mix(h) ^ vf_mix((uint64_t)sz + 77);
    /* the destination starts at every alignment 0..7 in turn (the end of the buffer stays exact): a formatter that stores whole
     * words behaves differently on an unaligned destination; and errno holds ERANGE on every second call: the result may not
     * depend on what an earlier, unrelated call left there */
    static unsigned rot;
    int off = (int)(rot++ & 7);
    unsigned char *base = vf_buf_new((size_t)sz + (size_t)off, 0xCC), *buf = base + off;
    errno = (rot & 8) ? ERANGE : 0;
    H3Error e = 99;
    if (VF_GUARD()) {
        e = h3ToString(h, (char *)buf, (size_t)sz);
    } else {
        vf_assert_report("h3ToString", key);
        VF_UNGUARD();
        vf_buf_free(base);
        return;
    }
    VF_UNGUARD();
    vf_add("tostr.calls", 1);
    if (vf_buf_check(base)) vf_violation("overrun", "h3ToString", key, "", "canary around %d-byte buffer damaged", sz);
    for (int i = 0; i < off; i++)
        if (base[i] != 0xCC) {
            vf_violation("touched", "h3ToString", key, "", "byte %d before the start of the buffer was modified", i - off);
            break;
        }
    if (off) vf_add("tostr.unaligned_destinations", 1);
    char want[17];
    int n = fmt_hex(h, want);
    if (sz < 17) {
        vf_add("tostr.small", 1);
        if (e != E_MEMORY_BOUNDS)
            vf_violation("wrong-code", "h3ToString", key, "", "sz=%d returned %u, expected E_MEMORY_BOUNDS(14)", sz, e);
        for (int i = 0; i < sz; i++)
            if (buf[i] != 0xCC) {
                vf_violation("touched", "h3ToString", key, "", "sz=%d: byte %d of the buffer was modified (rc=%u)", sz, i, e);
                break;
            }
    } else {
        vf_add("tostr.fit", 1);
        if (e != E_SUCCESS) {
            vf_violation("wrong-code", "h3ToString", key, "", "sz=%d returned %u, expected success", sz, e);
        } else {
            if (memcmp(buf, want, (size_t)n + 1))
                vf_violation("wrong-text", "h3ToString", key, "", "h=%016" PRIx64 " wrote \"%.20s\", expected \"%s\"", h, (char *)buf, want);
            /* the statement gives the function "at most 16 digits plus terminator": the first 17 bytes are its to use (a
             * version that clears them all is within the statement — only counted), anything from byte 17 on is not */
            for (int i = n + 1; i < sz && i < 17; i++)
                if (buf[i] != 0xCC) {
                    vf_add("tostr.scratch_bytes_within_17_after_terminator_written", 1);
                    break;
                }
            for (int i = 17; i < sz; i++)
                if (buf[i] != 0xCC) {
                    vf_violation("touched", "h3ToString", key, "", "byte %d (beyond the 17 the text can need) was modified (len %d, sz %d)", i, n, sz);
                    break;
                }
            /* round trip through an exact-size copy of the text */
            char *s = vf_buf_new((size_t)n + 1, 0);
            memcpy(s, want, (size_t)n + 1);
            uint64_t *out = vf_buf_new(8, 0);
            *out = 0x5555555555555555ULL;
            /* twice: with errno clear and with errno = ERANGE left behind by some earlier call (e.g. an over-long parse) */
            for (int pass = 0; pass < 2; pass++) {
                *out = 0x5555555555555555ULL;
                errno = pass ? ERANGE : 0;
                H3Error e2 = stringToH3(s, out);
                vf_add("roundtrip", 1);
                if (e2 != E_SUCCESS || *out != h)
                    vf_violation("roundtrip", "stringToH3", key ^ (uint64_t)pass, "", "stringToH3(\"%s\") %s-> rc=%u value=%016" PRIx64 ", expected %016" PRIx64, want,
                                 pass ? "with errno = ERANGE on entry " : "", e2, *out, h);
            }
            errno = 0;
            if (n == 16 || (h >> 63)) vf_add("roundtrip.16digit_or_highbit", 1);
            vf_buf_free(s);
            vf_buf_free(out);
        }
    }
    vf_distinct(key);
    vf_buf_free(base);
    vf_sample("h3ToString(%016" PRIx64 ", sz=%d) -> rc=%u", h, sz, e);
}

static int is_hex(int c) { return (c >= '0' && c <= '9') || (c >= 'a' && c <= 'f') || (c >= 'A' && c <= 'F'); }
static int is_space(int c) { return c == ' ' || (c >= 9 && c <= 13); }

static void case_parse(const unsigned char *bytes, int len) {
    char spec[128];
    int o = snprintf(spec, sizeof spec, "parse ");
    for (int i = 0; i < len && o < 120; i++) o += snprintf(spec + o, sizeof spec - o, "%02x", bytes[i]);
    if (len == 0) snprintf(spec + o, sizeof spec - o, "-");
    vf_case("%s", spec);
    uint64_t key = 1469598103934665603ULL;
    for (int i = 0; i < len; i++) key = (key ^ bytes[i]) * 1099511628211ULL;
    key = vf_mix(key + (uint64_t)len);
    char *s = vf_buf_new((size_t)len + 1, 0);
    memcpy(s, bytes, (size_t)len);
    s[len] = 0;
    uint64_t *out = vf_buf_new(8, 0);
    const uint64_t SENT = 0xA5A5A5A55A5A5A5AULL;
    *out = SENT;
    H3Error e = 99;
    static unsigned prot;
    errno = (prot++ & 1) ? ERANGE : 0;
    if (VF_GUARD()) {
        e = stringToH3(s, out);
    } else {
        vf_assert_report("stringToH3", key);
        VF_UNGUARD();
        vf_buf_free(s);
        vf_buf_free(out);
        return;
    }
    VF_UNGUARD();
    vf_add("parse.calls", 1);
    if (e > 15) vf_violation("bad-code", "stringToH3", key, "", "return code %u not documented", e);
    int c0 = len ? bytes[0] : 0;
    if (len == 0 || !(is_hex(c0) || is_space(c0) || c0 == '+' || c0 == '-')) {
        /* does not start with a hexadecimal number */
        vf_add("parse.nonhex", 1);
        vf_distinct(key);
        if (e == E_SUCCESS)
            vf_violation("accepted-garbage", "stringToH3", key, "", "text starting with byte 0x%02x accepted, value %016" PRIx64, c0, *out);
        if (*out != SENT)
            vf_violation("result-on-error", "stringToH3", key, "", "output slot modified (%016" PRIx64 ") although rc=%u", *out, e);
    } else {
        int nd = 0;
        while (nd < len && is_hex(bytes[nd])) nd++;
        int lower_canon = nd == len && nd >= 1 && nd <= 16 && (bytes[0] != '0' || nd == 1);
        for (int i = 0; i < nd && lower_canon; i++)
            if (bytes[i] >= 'A' && bytes[i] <= 'F') lower_canon = 0;
        if (lower_canon) {
            /* exactly the shape h3ToString produces: must parse to that value */
            uint64_t v = 0;
            for (int i = 0; i < nd; i++) v = v * 16 + (uint64_t)(bytes[i] <= '9' ? bytes[i] - '0' : bytes[i] - 'a' + 10);
            vf_add("parse.canonical", 1);
            vf_distinct(key);
            if (e != E_SUCCESS || *out != v)
                vf_violation("roundtrip", "stringToH3", key, "", "canonical text \"%s\" -> rc=%u value=%016" PRIx64, s, e, *out);
        } else {
            vf_add("parse.unjudged_shape", 1); /* sign, whitespace, 0x, padding, upper case, junk, >16 digits */
            if (e != E_SUCCESS && *out != SENT)
                vf_violation("result-on-error", "stringToH3", key, "", "output slot modified although rc=%u", e);
        }
    }
    vf_buf_free(s);
    vf_buf_free(out);
}

/* buffer sizes that do not fit into 32 bits: "a buffer of at least 17 bytes" has no upper end, and a size that is truncated to
 * int or unsigned somewhere inside becomes k = sz mod 2^32, possibly below 17.  The buffer really is that large: an anonymous
 * no-reserve mapping of 2^33 + 4096 bytes, of which only the first page is ever touched. */
#include <sys/mman.h>
static void case_tostr_huge(uint64_t h, size_t sz, unsigned char *big) {
    vf_case("tostr-huge %016" PRIx64 " %zu", h, sz);
    uint64_t key = vf_mix(h) ^ vf_mix((uint64_t)sz);
    memset(big, 0xCC, 64);
    H3Error e = 99;
    if (VF_GUARD()) {
        e = h3ToString(h, (char *)big, sz);
    } else {
        vf_assert_report("h3ToString", key);
        VF_UNGUARD();
        return;
    }
    VF_UNGUARD();
    vf_add("tostr.calls", 1);
    vf_add("tostr.sizes_beyond_32_bits", 1);
    char want[17];
    int n = fmt_hex(h, want);
    if (e != E_SUCCESS)
        vf_violation("wrong-code", "h3ToString", key, "", "sz=%zu (= 2^32 * %zu + %zu) returned %u, expected success", sz, sz >> 32, sz & 0xffffffffu, e);
    else if (memcmp(big, want, (size_t)n + 1))
        vf_violation("wrong-text", "h3ToString", key, "", "h=%016" PRIx64 " sz=%zu wrote \"%.20s\", expected \"%s\"", h, sz, (char *)big, want);
    else
        for (int i = 17; i < 64; i++)
            if (big[i] != 0xCC) {
                vf_violation("touched", "h3ToString", key, "", "sz=%zu: byte %d (beyond the 17 the text can need) was modified", sz, i);
                break;
            }
    vf_distinct(key);
}
static void huge_sizes(vf_rng *r) {
    size_t len = ((size_t)1 << 33) + 4096;
    unsigned char *big = mmap(NULL, len, PROT_READ | PROT_WRITE, MAP_PRIVATE | MAP_ANONYMOUS | MAP_NORESERVE, -1, 0);
    if (big == MAP_FAILED) {
        vf_add("tostr.huge_mapping_refused", 1);
        return;
    }
    for (int m = 1; m <= 2; m++)
        for (int k = 0; k <= 17; k++) {
            size_t sz = ((size_t)m << 32) + (size_t)k;
            case_tostr_huge(0, sz, big);
            case_tostr_huge(~(uint64_t)0, sz, big);
            case_tostr_huge((uint64_t)0x123456789abcdefULL >> (4 * (k % 15)), sz, big);
            case_tostr_huge(vf_u64(r) >> (int)vf_below(r, 60), sz, big);
        }
    case_tostr_huge(vf_rand_cell(r, 9), ((size_t)1 << 31) + 5, big);
    case_tostr_huge(vf_rand_cell(r, 9), ((size_t)1 << 31), big);
    case_tostr_huge(vf_rand_cell(r, 9), ((size_t)1 << 32) - 1, big);
    munmap(big, len);
}

static void run(void) {
    vf_rng r;
    vf_rng_stream(&r, 20);
    int64_t idx = 0;
    if (VF.shard == 0) huge_sizes(&r);
    /* every single bit, zero, all ones x every buffer size 0..32 */
    for (int b = -2; b < 64; b++) {
        uint64_t h = b == -2 ? 0 : b == -1 ? ~(uint64_t)0 : (uint64_t)1 << b;
        for (int sz = 0; sz <= 32; sz++)
            if (VF_MINE(idx++)) case_tostr(h, sz);
    }
    /* every digit count 1..16 x random tails x sizes around the limit */
    static const int szs[] = {0, 1, 15, 16, 17, 18, 31, 32};
    int reps = VF_T(40, 400);
    for (int nd = 1; nd <= 16; nd++)
        for (int k = 0; k < reps; k++) {
            uint64_t h = vf_u64(&r);
            if (nd < 16) h &= (((uint64_t)1 << (4 * nd)) - 1);
            h |= (uint64_t)(1 + vf_below(&r, 15)) << (4 * (nd - 1));
            if (nd < 16) h &= (((uint64_t)1 << (4 * nd)) - 1);
            for (unsigned s = 0; s < sizeof szs / sizeof szs[0]; s++) case_tostr(h, szs[s]);
            case_tostr(h, (int)vf_below(&r, 33));
        }
    /* all 0..0xFFFF */
    for (uint64_t h = 0; h <= 0xFFFF; h++)
        if (VF_MINE(idx++)) case_tostr(h, 17);
    /* cells, edges, vertexes produced by the library */
    int ncell = VF_T(2000, 40000);
    for (int k = 0; k < ncell; k++) {
        int res = (int)vf_below(&r, 16);
        H3Index h = vf_rand_cell(&r, res);
        case_tostr(h, 17);
        H3Index e[6] = {0}, v[6] = {0};
        if (!originToDirectedEdges(h, e))
            for (int i = 0; i < 6; i++)
                if (e[i]) {
                    case_tostr(e[i], 17 + (int)vf_below(&r, 4));
                    vf_add("tostr.edges", 1);
                }
        if (!cellToVertexes(h, v))
            for (int i = 0; i < 6; i++)
                if (v[i]) {
                    case_tostr(v[i], 17 + (int)vf_below(&r, 4));
                    vf_add("tostr.vertexes", 1);
                }
    }
    /* random 64-bit values, hostile indexes */
    int nrand = VF_T(150000, 3000000);
    for (int k = 0; k < nrand; k++) {
        uint64_t h = (k & 1) ? vf_u64(&r) : vf_hostile_index(&r);
        int sz = (k % 5 == 0) ? (int)vf_below(&r, 33) : 17;
        case_tostr(h, sz);
    }
    /* parsing: all byte strings of length <= 2 */
    unsigned char b[24];
    if (VF_MINE(idx++)) case_parse(b, 0);
    for (int c0 = 1; c0 < 256; c0++) {
        b[0] = (unsigned char)c0;
        if (VF_MINE(idx++)) case_parse(b, 1);
        for (int c1 = 1; c1 < 256; c1++) {
            b[1] = (unsigned char)c1;
            if (VF_MINE(idx++)) case_parse(b, 2);
        }
    }
    /* random strings <= 20 bytes over a hostile alphabet */
    static const char alpha[] = "0123456789abcdefABCDEFxX+- \t\n.,gG/:@zZ_#";
    int nstr = VF_T(100000, 2000000);
    for (int k = 0; k < nstr; k++) {
        int len = (int)vf_below(&r, 21);
        for (int i = 0; i < len; i++)
            b[i] = vf_below(&r, 8) ? (unsigned char)alpha[vf_below(&r, sizeof alpha - 1)] : (unsigned char)(1 + vf_below(&r, 255));
        if (len && vf_below(&r, 3) == 0) b[0] = (unsigned char)(1 + vf_below(&r, 255));
        case_parse(b, len);
    }
}

static void replay(const char *spec) {
    uint64_t h;
    int sz;
    size_t hsz;
    if (sscanf(spec, "tostr-huge %" SCNx64 " %zu", &h, &hsz) == 2) {
        size_t len = ((size_t)1 << 33) + 4096;
        unsigned char *big = mmap(NULL, len, PROT_READ | PROT_WRITE, MAP_PRIVATE | MAP_ANONYMOUS | MAP_NORESERVE, -1, 0);
        if (big == MAP_FAILED) vf_fatal("cannot map the large buffer");
        case_tostr_huge(h, hsz, big);
        munmap(big, len);
        return;
    } else if (sscanf(spec, "tostr %" SCNx64 " %d", &h, &sz) == 2) {
        case_tostr(h, sz);
        return;
    }
    if (!strncmp(spec, "parse ", 6)) {
        unsigned char b[64];
        int n = 0;
        const char *p = spec + 6;
        unsigned x;
        while (n < 60 && sscanf(p, "%2x", &x) == 1 && p[0] != '-') {
            b[n++] = (unsigned char)x;
            p += 2;
        }
        case_parse(b, n);
        return;
    }
    vf_fatal("bad replay spec: %s", spec);
}

int main(int argc, char **argv) { return vf_main(argc, argv, "C20", run, replay); }
