/* mon_C07 — both polygon fills return exactly the cells whose centre is inside
 * the polygon (DESIGN.md §5 C07).
 *
 * Oracle: planar lat/lng crossing test in long double on the unrolled
 * coordinates, three-valued (a centre closer than max(1e-11, 64 ulp) to an
 * edge is ambiguous and not judged).  Candidates come from latLngToCell on a
 * grid over the polygon's bounding box grown by two cell widths plus the
 * outputs themselves — membership is never taken from a fill.
 */
#include "vf.h"
#include "vf_poly.h"

static int cmp_u64(const void *a, const void *b) {
    uint64_t x = *(const uint64_t *)a, y = *(const uint64_t *)b;
    return x < y ? -1 : x > y;
}
static int64_t n_poly, n_cells_judged, n_ambig, n_in, n_out;

typedef struct {
    H3Index *a;
    int64_t n, cap;
} vec;
static void push(vec *v, H3Index h) {
    if (v->n == v->cap) {
        v->cap = v->cap ? v->cap * 2 : 1024;
        v->a = realloc(v->a, (size_t)v->cap * 8);
        if (!v->a) vf_fatal("oom");
    }
    v->a[v->n++] = h;
}
static void sort_unique(vec *v) {
    if (v->n > 1) qsort(v->a, (size_t)v->n, 8, cmp_u64);
    int64_t m = 0;
    for (int64_t i = 0; i < v->n; i++)
        if (i == 0 || v->a[i] != v->a[i - 1]) v->a[m++] = v->a[i];
    v->n = m;
}
static int has(const H3Index *s, int64_t n, H3Index x) { return n > 0 && bsearch(&x, s, (size_t)n, 8, cmp_u64) != NULL; }

static ld band_for(LatLng c) {
    ld b = 64 * 2.2e-16L * (fabsl((ld)c.lng) + fabsl((ld)c.lat) + 1);
    return b > 1e-11L ? b : 1e-11L;
}

static void case_poly(uint64_t seed) {
    vf_case("poly %016" PRIx64, seed);
    uint64_t key = vf_mix(seed ^ 0x07);
    vf_poly P;
    int res;
    char desc[256];
    if (!vf_poly_case(seed, &P, &res, desc, sizeof desc)) {
        vf_poly_free(&P);
        vf_add("generator.rejected", 1);
        return;
    }
    if (!VF_GUARD()) {
        vf_assert_report("polygonToCells", key);
        VF_UNGUARD();
        vf_poly_free(&P);
        return;
    }
    int64_t s1 = -1, s2 = -1;
    H3Error e1 = maxPolygonToCellsSize(&P.gp, res, 0, &s1), e2 = maxPolygonToCellsSizeExperimental(&P.gp, res, CONTAINMENT_CENTER, &s2);
    if (e1 || e2 || s1 < 0 || s2 < 0) {
        vf_violation("error", e1 ? "maxPolygonToCellsSize" : "maxPolygonToCellsSizeExperimental", key, "", "size functions rc=%u/%u on a well-formed polygon (%s)", e1, e2, desc);
        goto done;
    }
    if (s1 > 400000 || s2 > 400000) {
        vf_add("skipped.too_large", 1);
        goto done;
    }
    H3Index *o1 = vf_buf_new((size_t)s1 * 8, 0), *o2 = vf_buf_new((size_t)s2 * 8, 0);
    e1 = polygonToCells(&P.gp, res, 0, o1);
    e2 = polygonToCellsExperimental(&P.gp, res, CONTAINMENT_CENTER, s2, o2);
    if (vf_buf_check(o1)) vf_violation("overrun", "polygonToCells", key, "", "wrote outside maxPolygonToCellsSize=%" PRId64 " slots (%s)", s1, desc);
    if (vf_buf_check(o2)) vf_violation("overrun", "polygonToCellsExperimental", key, "", "wrote outside %" PRId64 " slots (%s)", s2, desc);
    if (e1) vf_violation("error", "polygonToCells", key, "", "rc=%u on a well-formed polygon (%s)", e1, desc);
    if (e2) vf_violation("error", "polygonToCellsExperimental", key, "", "rc=%u on a well-formed polygon (%s)", e2, desc);
    vec a1 = {0}, a2 = {0}, cand = {0};
    if (!e1)
        for (int64_t i = 0; i < s1; i++)
            if (o1[i]) push(&a1, o1[i]);
    if (!e2)
        for (int64_t i = 0; i < s2; i++)
            if (o2[i]) push(&a2, o2[i]);
    int64_t n1 = a1.n, n2 = a2.n;
    sort_unique(&a1);
    sort_unique(&a2);
    if (a1.n != n1) vf_violation("duplicate", "polygonToCells", key, "", "%" PRId64 " duplicate cells in the output (%s)", n1 - a1.n, desc);
    if (a2.n != n2) vf_violation("duplicate", "polygonToCellsExperimental", key, "", "%" PRId64 " duplicate cells in the output (%s)", n2 - a2.n, desc);
    for (int64_t i = 0; i < a1.n; i++) {
        push(&cand, a1.a[i]);
        if (i < 8) vf_out_cell("polygonToCells", a1.a[i], res);
    }
    for (int64_t i = 0; i < a2.n; i++) {
        push(&cand, a2.a[i]);
        if (i < 8) vf_out_cell("polygonToCellsExperimental", a2.a[i], res);
    }
    /* independent candidates: grid over the grown bounding box */
    {
        H3Index ch;
        LatLng c0 = {0.5 * (P.bbox_u[0] + P.bbox_u[1]), 0.5 * (P.bbox_u[2] + P.bbox_u[3])};
        vf_cell cc;
        LatLng cw = c0;
        while (cw.lng > M_PI) cw.lng -= 2 * M_PI;
        while (cw.lng < -M_PI) cw.lng += 2 * M_PI;
        if (!latLngToCell(&cw, res, &ch) && !vf_cell_load(ch, &cc)) {
            double w = (double)cc.width, step = 0.35 * w;
            double la0 = P.bbox_u[0] - 2 * w, la1 = P.bbox_u[1] + 2 * w;
            double maxabs = fmax(fabs(la0), fabs(la1));
            double cl = cos(maxabs < 1.5 ? maxabs : 1.5);
            double lo0 = P.bbox_u[2] - 2 * w / cl, lo1 = P.bbox_u[3] + 2 * w / cl;
            double nlat = (la1 - la0) / step + 1, nlng = (lo1 - lo0) / (step / cl) + 1;
            if (nlat * nlng < 3e6) {
                for (double la = la0; la <= la1 + step; la += step)
                    for (double lo = lo0; lo <= lo1 + step / cl; lo += step / cl) {
                        LatLng g = {la, lo};
                        if (g.lat > M_PI_2) g.lat = M_PI_2;
                        if (g.lat < -M_PI_2) g.lat = -M_PI_2;
                        while (g.lng > M_PI) g.lng -= 2 * M_PI;
                        while (g.lng < -M_PI) g.lng += 2 * M_PI;
                        H3Index h;
                        if (!latLngToCell(&g, res, &h)) push(&cand, h);
                    }
                vf_add("grid.points", (int64_t)(nlat * nlng));
            } else
                vf_add("grid.skipped_too_large", 1);
        }
    }
    sort_unique(&cand);
    int bad1 = 0, bad2 = 0;
    for (int64_t i = 0; i < cand.n; i++) {
        LatLng c;
        if (cellToLatLng(cand.a[i], &c)) continue;
        ld md;
        int side = vf_poly_side(&P, c, band_for(c), &md);
        n_cells_judged++;
        if (side == 0) {
            n_ambig++;
            continue;
        }
        int in1 = has(a1.a, a1.n, cand.a[i]), in2 = has(a2.a, a2.n, cand.a[i]);
        if (side > 0) n_in++;
        else n_out++;
        if (!e1 && (side > 0) != in1 && bad1 < 3) {
            bad1++;
            vf_violation(side > 0 ? "missed" : "extra", "polygonToCells", key ^ vf_mix(cand.a[i]), P.crosses_antimeridian ? "antimeridian" : "",
                         "cell %016" PRIx64 " whose centre (%.15g, %.15g) is %s the polygon by %.3Lg rad is %s (%s; %" PRId64 " cells returned)", cand.a[i], c.lat, c.lng,
                         side > 0 ? "inside" : "outside", md, in1 ? "returned" : "not returned", desc, a1.n);
        }
        if (!e2 && (side > 0) != in2 && bad2 < 3) {
            bad2++;
            vf_violation(side > 0 ? "missed" : "extra", "polygonToCellsExperimental", key ^ vf_mix(cand.a[i]) ^ 1, P.crosses_antimeridian ? "antimeridian" : "",
                         "cell %016" PRIx64 " whose centre (%.15g, %.15g) is %s the polygon by %.3Lg rad is %s (%s; %" PRId64 " cells returned)", cand.a[i], c.lat, c.lng,
                         side > 0 ? "inside" : "outside", md, in2 ? "returned" : "not returned", desc, a2.n);
        }
    }
    n_poly++;
    if (P.crosses_antimeridian) vf_add("polygons.antimeridian", 1);
    if (P.nholes) vf_add("polygons.with_holes", 1);
    if (strstr(desc, "aspect 1.0000") == NULL) vf_add("polygons.needle", 1);
    if (strstr(desc, "pentagon")) vf_add("polygons.near_pentagon", 1);
    if (strstr(desc, "axis-aligned")) vf_add("polygons.axis_aligned", 1);
    if (strstr(desc, "snapped")) vf_add("polygons.vertices_snapped_to_centre_coordinates", 1);
    if (strstr(desc, "hugging")) vf_add("polygons.hugging_cell_corners", 1);
    if (strstr(desc, "listed twice")) vf_add("polygons.with_a_vertex_listed_twice", 1);
    if (a2.n == 0) vf_add("polygons.empty_result", 1);
    if (a2.n >= 100) vf_add("polygons.100plus_cells", 1);
    vf_maxd("largest_fill", (double)a2.n);
    if (a2.n > 0 || a1.n > 0) vf_distinct(key);
    vf_sample("poly %016" PRIx64 " (%s): legacy %" PRId64 " cells, experimental %" PRId64 " cells, %" PRId64 " candidates judged", seed, desc, a1.n, a2.n, cand.n);
    free(a1.a);
    free(a2.a);
    free(cand.a);
    vf_buf_free(o1);
    vf_buf_free(o2);
done:
    VF_UNGUARD();
    vf_poly_free(&P);
}

static void run(void) {
    vf_rng r;
    vf_rng_stream(&r, 7);
    /* witnesses of the repaired defect F3 (known_findings.json) stay in the workload as ordinary cases.
     * (the generator is tier-independent, so these seeds name the same polygons in both tiers) */
    static const uint64_t F3W[] = {0x07740307d280dfd0ULL, 0x4a321fefae34d5b7ULL, 0x8edafc5004a773a7ULL, 0xa9b6954a5331a6dfULL,
                                   0xac8ac90c67715ed4ULL, 0xb9669c2c2a049affULL, 0xbe6c5e688d133ef9ULL, 0xded06e067bbf8ccbULL};
    for (unsigned i = 0; i < sizeof F3W / sizeof F3W[0]; i++)
        if (VF_MINE(i)) {
            case_poly(F3W[i]);
            vf_add("witness.F3_cases", 1);
        }
    /* witness of the repaired defect F9 (bboxHexEstimate, transmeridian box near a pole): an ordinary case now */
    if (VF_MINE(8)) {
        case_poly(0x6778d10bba79cd46ULL);
        vf_add("witness.F9_cases", 1);
    }
    int n = VF_T(2500, 40000);
    for (int i = 0; i < n; i++) case_poly(vf_u64(&r));
    vf_add("polygons", n_poly);
    vf_add("cells.judged", n_cells_judged);
    vf_add("cells.ambiguous", n_ambig);
    vf_add("cells.inside", n_in);
    vf_add("cells.outside", n_out);
}
static void replay(const char *spec) {
    uint64_t seed;
    if (sscanf(spec, "poly %" SCNx64, &seed) == 1)
        case_poly(seed);
    else
        vf_fatal("bad replay spec: %s", spec);
    vf_add("polygons", n_poly);
}
int main(int argc, char **argv) { return vf_main(argc, argv, "C07", run, replay); }
