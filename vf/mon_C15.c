/* mon_C15 — containment modes mean what they say and are nested; size bound
 * holds (DESIGN.md §5 C15).
 *
 * Exact set facts: duplicate-freedom, nesting FULL <= CENTER <= OVERLAPPING <=
 * OVERLAPPING_BBOX (pole cells excluded), size bound, capacity error, flags.
 * Membership claims are three-valued and made only where the great-circle and
 * the planar reading of "the cell" agree (margins delta = 2 %, delta' = 0.5 %
 * of the cell width); everything else is counted as ambiguous.
 */
#include "vf.h"
#include "vf_poly.h"

#ifndef VF_ALLOC
#error "mon_C15 uses the allocator ledger (config asan-alloc)"
#endif

static int cmp_u64(const void *a, const void *b) {
    uint64_t x = *(const uint64_t *)a, y = *(const uint64_t *)b;
    return x < y ? -1 : x > y;
}
typedef struct {
    H3Index *a;
    int64_t n, cap;
} vec;
static void push(vec *v, H3Index h) {
    if (v->n == v->cap) {
        v->cap = v->cap ? v->cap * 2 : 1024;
        v->a = realloc(v->a, (size_t)v->cap * 8);
        if (!v->a) vf_fatal("oom");
    }
    v->a[v->n++] = h;
}
static void sort_unique(vec *v) {
    if (v->n > 1) qsort(v->a, (size_t)v->n, 8, cmp_u64);
    int64_t m = 0;
    for (int64_t i = 0; i < v->n; i++)
        if (i == 0 || v->a[i] != v->a[i - 1]) v->a[m++] = v->a[i];
    v->n = m;
}
static int has(const vec *s, H3Index x) { return s->n > 0 && bsearch(&x, s->a, (size_t)s->n, 8, cmp_u64) != NULL; }

/* ---- planar helpers (long double, unrolled longitudes) */
typedef struct {
    ld x, y;
} P2;
static ld segdist(P2 p, P2 a, P2 b) {
    ld dx = b.x - a.x, dy = b.y - a.y, den = dx * dx + dy * dy;
    ld t = den > 0 ? ((p.x - a.x) * dx + (p.y - a.y) * dy) / den : 0;
    if (t < 0) t = 0;
    if (t > 1) t = 1;
    ld qx = a.x + t * dx - p.x, qy = a.y + t * dy - p.y;
    return sqrtl(qx * qx + qy * qy);
}
/* 2 = proper crossing with every end point at least m away from the other segment's line; 1 = crossing; 0 = none */
static int segcross(P2 a, P2 b, P2 c, P2 d, ld m) {
    ld lab = sqrtl((b.x - a.x) * (b.x - a.x) + (b.y - a.y) * (b.y - a.y)), lcd = sqrtl((d.x - c.x) * (d.x - c.x) + (d.y - c.y) * (d.y - c.y));
    if (lab == 0 || lcd == 0) return 0;
    ld d1 = ((b.x - a.x) * (c.y - a.y) - (b.y - a.y) * (c.x - a.x)) / lab, d2 = ((b.x - a.x) * (d.y - a.y) - (b.y - a.y) * (d.x - a.x)) / lab;
    ld d3 = ((d.x - c.x) * (a.y - c.y) - (d.y - c.y) * (a.x - c.x)) / lcd, d4 = ((d.x - c.x) * (b.y - c.y) - (d.y - c.y) * (b.x - c.x)) / lcd;
    if (((d1 > 0) != (d2 > 0)) && ((d3 > 0) != (d4 > 0))) {
        if (fabsl(d1) > m && fabsl(d2) > m && fabsl(d3) > m && fabsl(d4) > m) return 2;
        return 1;
    }
    return 0;
}
static int pip(const P2 *v, int n, P2 p, ld *mind) {
    int in = 0;
    ld md = 1e9L;
    for (int i = 0; i < n; i++) {
        P2 a = v[i], b = v[(i + 1) % n];
        if ((a.y > p.y) != (b.y > p.y)) {
            ld x = a.x + (p.y - a.y) / (b.y - a.y) * (b.x - a.x);
            if (x > p.x) in = !in;
        }
        ld d = segdist(p, a, b);
        if (d < md) md = d;
    }
    if (mind) *mind = md;
    return in;
}

typedef struct {
    int nseg;
    P2 a[256], b[256]; /* all polygon edges: outer + holes, unrolled */
    int nv;
    P2 v[256]; /* all polygon vertices */
    ld mid;
} polyseg;
static void polyseg_build(const vf_poly *P, polyseg *S) {
    S->nseg = S->nv = 0;
    S->mid = 0.5L * (P->bbox_u[2] + P->bbox_u[3]);
    /* a vertex listed twice in a row gives a zero-length edge: it is a vertex, not a segment */
    for (int i = 0; i < P->n; i++) {
        S->a[S->nseg] = (P2){P->outer_u[i].lng, P->outer_u[i].lat};
        S->b[S->nseg] = (P2){P->outer_u[(i + 1) % P->n].lng, P->outer_u[(i + 1) % P->n].lat};
        S->v[S->nv++] = S->a[S->nseg];
        if (S->a[S->nseg].x != S->b[S->nseg].x || S->a[S->nseg].y != S->b[S->nseg].y) S->nseg++;
    }
    for (int h = 0; h < P->nholes; h++)
        for (int i = 0; i < P->hn[h]; i++) {
            S->a[S->nseg] = (P2){P->hole_u[h][i].lng, P->hole_u[h][i].lat};
            S->b[S->nseg] = (P2){P->hole_u[h][(i + 1) % P->hn[h]].lng, P->hole_u[h][(i + 1) % P->hn[h]].lat};
            S->v[S->nv++] = S->a[S->nseg];
            if (S->a[S->nseg].x != S->b[S->nseg].x || S->a[S->nseg].y != S->b[S->nseg].y) S->nseg++;
        }
}
static P2 unroll(LatLng g, ld mid) {
    ld x = g.lng;
    while (x - mid > VF_PI) x -= 2 * VF_PI;
    while (x - mid < -VF_PI) x += 2 * VF_PI;
    return (P2){x, g.lat};
}

enum { V_AMBIG = 0, V_INTERIOR = 1, V_OVERLAP = 2, V_DISJOINT = 3 };
static int64_t n_interior, n_overlap, n_disjoint, n_ambig;

/* classify one cell against the polygon */
static ld g_mfac = 1;
static int classify(const vf_poly *P, const polyseg *S, H3Index h, int res, ld w, char *why, size_t wl) {
    vf_cell c;
    why[0] = 0;
    if (vf_cell_load(h, &c)) return V_AMBIG;
    (void)res;
    /* margins: 2 % / 0.5 % of the cell width; for the corner-hugging polygons at res >= 4 (whose whole point is the sub-per-cent
     * neighbourhood of a cell corner) 0.08 % / 0.02 % — every verdict still needs the planar and the great-circle reading of
     * the cell edges to agree, so a tighter margin only turns fewer cells into "ambiguous" */
    ld delta = 0.02L * g_mfac * w, dprime = 0.005L * g_mfac * w, md;
    int cside = vf_poly_side(P, c.cg, dprime, &md);
    /* planar radius of the cell incl. great-circle bulge */
    P2 cp = unroll(c.cg, S->mid);
    P2 CP[MAX_CELL_BNDRY_VERTS], CG[MAX_CELL_BNDRY_VERTS * 9];
    int ng = 0;
    ld rho = 0;
    for (int i = 0; i < c.n; i++) {
        CP[i] = unroll(c.g[i], cp.x); /* keep the cell in one piece: unroll around its own centre */
        for (int k = 0; k < 9; k++) {
            V3 q = v3_norm(v3_add(v3_scale(c.v[i], 1 - k / 9.0L), v3_scale(c.v[(i + 1) % c.n], k / 9.0L)));
            LatLng g = v3_to_ll(q);
            if (k == 0) g = c.g[i];
            CG[ng] = unroll(g, cp.x);
            ld dx = CG[ng].x - cp.x, dy = CG[ng].y - cp.y, d = sqrtl(dx * dx + dy * dy);
            if (d > rho) rho = d;
            ng++;
        }
    }
    if (md > 1.05L * rho + delta) {
        /* the whole cell is on one side of every polygon edge */
        if (cside > 0) {
            snprintf(why, wl, "centre inside, nearest polygon edge %.3Lg rad away, cell radius %.3Lg", md, rho);
            return V_INTERIOR;
        }
        if (cside < 0) {
            snprintf(why, wl, "centre outside, nearest polygon edge %.3Lg rad away, cell radius %.3Lg", md, rho);
            return V_DISJOINT;
        }
        return V_AMBIG;
    }
    /* boundary cell: detailed test in both readings */
    int crossP = 0, crossG = 0;
    ld dP = 1e9L, dG = 1e9L;
    for (int s = 0; s < S->nseg; s++) {
        for (int i = 0; i < c.n; i++) {
            int x = segcross(S->a[s], S->b[s], CP[i], CP[(i + 1) % c.n], dprime);
            if (x > crossP) crossP = x;
            ld d = segdist(CP[i], S->a[s], S->b[s]);
            if (d < dP) dP = d;
            d = segdist(S->a[s], CP[i], CP[(i + 1) % c.n]);
            if (d < dP) dP = d;
        }
        for (int i = 0; i < ng; i++) {
            int x = segcross(S->a[s], S->b[s], CG[i], CG[(i + 1) % ng], dprime);
            if (x > crossG) crossG = x;
            ld d = segdist(CG[i], S->a[s], S->b[s]);
            if (d < dG) dG = d;
            d = segdist(S->a[s], CG[i], CG[(i + 1) % ng]);
            if (d < dG) dG = d;
        }
    }
    if (crossP) dP = 0;
    if (crossG) dG = 0;
    int cell_vert_in = 0, cell_vert_in_any = 0, all_in = cside > 0;
    for (int i = 0; i < ng; i++) {
        LatLng g = {(double)CG[i].y, (double)CG[i].x};
        ld m2;
        int sd = vf_poly_side(P, g, dprime, &m2);
        if (sd > 0 && (i % 9) == 0) cell_vert_in = 1;
        if (sd >= 0) cell_vert_in_any = 1;
        if (!(sd > 0 && m2 > delta)) all_in = 0;
    }
    int poly_vert_in_both = 0, poly_vert_in_any = 0;
    for (int k = 0; k < S->nv; k++) {
        ld m1, m2;
        int i1 = pip(CP, c.n, S->v[k], &m1), i2 = pip(CG, ng, S->v[k], &m2);
        if (i1 || i2 || m1 < dprime || m2 < dprime) poly_vert_in_any = 1;
        if (i1 && i2 && m1 > dprime && m2 > dprime) {
            LatLng g = {(double)S->v[k].y, (double)S->v[k].x};
            while (g.lng > M_PI) g.lng -= 2 * M_PI;
            while (g.lng < -M_PI) g.lng += 2 * M_PI;
            H3Index hv;
            if (!latLngToCell(&g, c.res, &hv) && hv == h) poly_vert_in_both = 1;
        }
    }
    if (all_in && !poly_vert_in_any && dP > delta && dG > delta) {
        snprintf(why, wl, "centre, vertices and 8 great-circle sub-points per edge inside by > %.3Lg%% of the cell width, no polygon vertex in the cell", 2 * g_mfac);
        return V_INTERIOR;
    }
    if (cside > 0) {
        snprintf(why, wl, "cell centre inside the polygon (margin %.3Lg)", md);
        return V_OVERLAP;
    }
    if (cell_vert_in) {
        snprintf(why, wl, "a cell vertex inside the polygon by > %.3Lg%% of the cell width", 0.5L * g_mfac);
        return V_OVERLAP;
    }
    if (poly_vert_in_both) {
        snprintf(why, wl, "a polygon vertex inside the cell by latLngToCell and by the planar test (> %.3Lg%% margin)", 0.5L * g_mfac);
        return V_OVERLAP;
    }
    if (crossP == 2 && crossG == 2) {
        snprintf(why, wl, "a polygon edge properly crosses a cell edge in both readings");
        return V_OVERLAP;
    }
    if (cside < 0 && !cell_vert_in_any && !poly_vert_in_any && dP > delta && dG > delta) {
        snprintf(why, wl, "shapes %.3Lg / %.3Lg rad apart (planar / great-circle reading), neither contains a vertex of the other", dP, dG);
        return V_DISJOINT;
    }
    return V_AMBIG;
}

static int ledger_clean(const char *fn, uint64_t key, const char *desc) {
    if (VFA.live != 0 || VFA.double_free) {
        vf_violation("leak", fn, key, "", "%ld block(s) live, %ld bad free(s) after %s (%s)", VFA.live, VFA.double_free, fn, desc);
        vfa_reset();
        return 0;
    }
    return 1;
}

/* F5 signature: the miss disappears when a vertex that lies unambiguously in the missed cell is listed first */
static const char *sig_first_vertex(const vf_poly *P, int res, H3Index missed) {
    int n = P->n;
    LatLng *rot = malloc((size_t)n * sizeof(LatLng));
    const char *sig = "";
    for (int k = 1; k < n && !*sig; k++) {
        H3Index hv;
        if (latLngToCell(&P->outer_w[k], res, &hv) || hv != missed) continue;
        for (int i = 0; i < n; i++) rot[i] = P->outer_w[(i + k) % n];
        GeoPolygon gp = P->gp;
        gp.geoloop.verts = rot;
        int64_t sz;
        if (maxPolygonToCellsSizeExperimental(&gp, res, CONTAINMENT_OVERLAPPING, &sz) || sz > 400000) continue;
        H3Index *o = calloc((size_t)sz + 1, 8);
        if (!polygonToCellsExperimental(&gp, res, CONTAINMENT_OVERLAPPING, sz, o))
            for (int64_t i = 0; i < sz; i++)
                if (o[i] == missed) sig = "overlap-first-vertex";
        free(o);
    }
    free(rot);
    vfa_reset();
    return sig;
}

static int64_t n_poly;
static void case_poly(uint64_t seed) {
    vf_case("poly %016" PRIx64, seed);
    uint64_t key = vf_mix(seed ^ 0x15);
    vf_poly P;
    int res;
    char desc[256], why[200];
    if (!vf_poly_case(seed, &P, &res, desc, sizeof desc)) {
        vf_poly_free(&P);
        vf_add("generator.rejected", 1);
        return;
    }
    g_mfac = (strstr(desc, "hugging") && res >= 4) ? 0.04L : 1;
    if (!VF_GUARD()) {
        vf_assert_report("polygonToCellsExperimental", key);
        VF_UNGUARD();
        vf_poly_free(&P);
        return;
    }
    vfa_reset();
    static const char *MN[4] = {"CENTER", "FULL", "OVERLAPPING", "OVERLAPPING_BBOX"};
    vec out[4] = {{0}, {0}, {0}, {0}}, cand = {0};
    int64_t sz[4];
    int ok = 1;
    for (uint32_t m = 0; m < 4 && ok; m++) {
        H3Error e = maxPolygonToCellsSizeExperimental(&P.gp, res, m, &sz[m]);
        ledger_clean("maxPolygonToCellsSizeExperimental", key, desc);
        if (e || sz[m] < 0) {
            vf_violation("error", "maxPolygonToCellsSizeExperimental", key ^ m, "", "mode %s rc=%u size=%" PRId64 " (%s)", MN[m], e, sz[m], desc);
            ok = 0;
        } else if (sz[m] > 400000) {
            vf_add("skipped.too_large", 1);
            ok = 0;
        }
    }
    for (uint32_t m = 0; m < 4 && ok; m++) {
        H3Index *o = vf_buf_new((size_t)sz[m] * 8, 0);
        H3Error e = polygonToCellsExperimental(&P.gp, res, m, sz[m], o);
        ledger_clean("polygonToCellsExperimental", key, desc);
        if (vf_buf_check(o)) vf_violation("overrun", "polygonToCellsExperimental", key ^ m, "", "mode %s wrote outside %" PRId64 " slots (%s)", MN[m], sz[m], desc);
        if (e == E_MEMORY_BOUNDS)
            vf_violation("size-bound", "maxPolygonToCellsSizeExperimental", key ^ m, "", "mode %s: the fill does not fit into the %" PRId64 " cells announced by maxPolygonToCellsSizeExperimental (%s)", MN[m], sz[m], desc);
        else if (e)
            vf_violation("error", "polygonToCellsExperimental", key ^ m, "", "mode %s rc=%u on a well-formed polygon (%s)", MN[m], e, desc);
        if (e) ok = 0;
        for (int64_t i = 0; i < sz[m] && !e; i++)
            if (o[i]) push(&out[m], o[i]);
        int64_t raw = out[m].n;
        sort_unique(&out[m]);
        if (raw != out[m].n) vf_violation("duplicate", "polygonToCellsExperimental", key ^ m, "", "mode %s: %" PRId64 " duplicates (%s)", MN[m], raw - out[m].n, desc);
        for (int64_t i = 0; i < out[m].n && i < 4; i++) vf_out_cell("polygonToCellsExperimental", out[m].a[i], res);
        /* capacity one short */
        if (!e && raw >= 1) {
            H3Index *sm = vf_buf_new((size_t)(raw - 1) * 8, 0);
            H3Error e2 = polygonToCellsExperimental(&P.gp, res, m, raw - 1, sm);
            ledger_clean("polygonToCellsExperimental", key, desc);
            vf_add("capacity.short_calls", 1);
            if (e2 != E_MEMORY_BOUNDS) vf_violation("wrong-code", "polygonToCellsExperimental", key ^ m ^ 0x50, "", "mode %s capacity %" PRId64 " for %" PRId64 " cells: rc=%u expected E_MEMORY_BOUNDS(14) (%s)", MN[m], raw - 1, raw, e2, desc);
            if (vf_buf_check(sm)) vf_violation("overrun", "polygonToCellsExperimental", key ^ m ^ 0x51, "", "mode %s wrote beyond a capacity of %" PRId64, MN[m], raw - 1);
            vf_buf_free(sm);
            /* capacities anywhere below the count (a fill that emits coarse cells and expands them must check the room for
             * every child, not once per coarse cell): two per mode, exact-size buffers */
            for (int t = 0; t < 2 && raw >= 2; t++) {
                int64_t cap = (int64_t)(vf_mix(key ^ (uint64_t)(m * 4 + t) ^ 0xCA9) % (uint64_t)(raw - 1));
                H3Index *sc = vf_buf_new((size_t)cap * 8, 0);
                e2 = polygonToCellsExperimental(&P.gp, res, m, cap, sc);
                ledger_clean("polygonToCellsExperimental", key, desc);
                vf_add("capacity.random_short_calls", 1);
                if (e2 != E_MEMORY_BOUNDS) vf_violation("wrong-code", "polygonToCellsExperimental", key ^ m ^ 0x52, "", "mode %s capacity %" PRId64 " for %" PRId64 " cells: rc=%u expected E_MEMORY_BOUNDS(14) (%s)", MN[m], cap, raw, e2, desc);
                if (vf_buf_check(sc)) vf_violation("overrun", "polygonToCellsExperimental", key ^ m ^ 0x53, "", "mode %s wrote beyond a capacity of %" PRId64 " (%" PRId64 " cells)", MN[m], cap, raw);
                vf_buf_free(sc);
            }
        }
        vf_buf_free(o);
    }
    /* invalid flags: both functions */
    {
        vf_rng fr;
        vf_rng_seed(&fr, seed ^ 0xF1A6);
        uint32_t bad = vf_below(&fr, 2) ? 4 + (uint32_t)vf_below(&fr, 60) : ((uint32_t)vf_u64(&fr) | 0x100);
        int64_t z = 0;
        H3Index one[1] = {0};
        H3Error e1 = maxPolygonToCellsSizeExperimental(&P.gp, res, bad, &z), e2 = polygonToCellsExperimental(&P.gp, res, bad, 1, one);
        ledger_clean("polygonToCellsExperimental", key, desc);
        vf_add("flags.invalid_calls", 2);
        if (e1 != E_OPTION_INVALID || e2 != E_OPTION_INVALID)
            vf_violation("wrong-code", e1 != E_OPTION_INVALID ? "maxPolygonToCellsSizeExperimental" : "polygonToCellsExperimental", key ^ 0x60, "", "flags 0x%x: rc=%u / %u expected E_OPTION_INVALID(15)", bad, e1, e2);
    }
    if (!ok) goto done;
    n_poly++;
    /* pole cells are outside the statement */
    H3Index npole = 0, spole = 0;
    {
        LatLng a = {M_PI_2, 0}, b = {-M_PI_2, 0};
        latLngToCell(&a, res, &npole);
        latLngToCell(&b, res, &spole);
    }
    /* nesting */
    static const int chain[3][2] = {{1, 0}, {0, 2}, {2, 3}};
    for (int q = 0; q < 3; q++) {
        const vec *in = &out[chain[q][0]], *sup = &out[chain[q][1]];
        for (int64_t i = 0; i < in->n; i++)
            if (in->a[i] != npole && in->a[i] != spole && !has(sup, in->a[i])) {
                vf_violation("nesting", "polygonToCellsExperimental", key ^ vf_mix(in->a[i]) ^ (uint64_t)q, "", "cell %016" PRIx64 " is returned in mode %s but not in mode %s (%s)", in->a[i], MN[chain[q][0]], MN[chain[q][1]], desc);
                break;
            }
    }
    /* FULL => centre and all boundary vertices inside */
    for (int64_t i = 0; i < out[1].n; i++) {
        H3Index h = out[1].a[i];
        if (h == npole || h == spole) continue;
        vf_cell c;
        if (vf_cell_load(h, &c)) continue;
        ld md;
        int bad = vf_poly_side(&P, c.cg, 1e-11L, &md) < 0;
        for (int k = 0; k < c.n && !bad; k++) bad = vf_poly_side(&P, c.g[k], 1e-11L, &md) < 0;
        vf_add("full.cells_checked", 1);
        if (bad) {
            vf_violation("full-not-contained", "polygonToCellsExperimental", key ^ vf_mix(h) ^ 0x70, "", "FULL mode returned %016" PRIx64 " although its centre or a boundary vertex lies %.3Lg rad outside the polygon (%s)", h, md, desc);
            break;
        }
    }
    /* candidates: BBOX output + independent grid */
    for (int64_t i = 0; i < out[3].n; i++) push(&cand, out[3].a[i]);
    for (int64_t i = 0; i < out[2].n; i++) push(&cand, out[2].a[i]);
    ld w = 0;
    {
        H3Index ch;
        LatLng c0 = {0.5 * (P.bbox_u[0] + P.bbox_u[1]), 0.5 * (P.bbox_u[2] + P.bbox_u[3])};
        while (c0.lng > M_PI) c0.lng -= 2 * M_PI;
        while (c0.lng < -M_PI) c0.lng += 2 * M_PI;
        vf_cell cc;
        if (!latLngToCell(&c0, res, &ch) && !vf_cell_load(ch, &cc)) {
            w = cc.width;
            double step = 0.35 * (double)w, la0 = P.bbox_u[0] - 2 * (double)w, la1 = P.bbox_u[1] + 2 * (double)w;
            double maxabs = fmax(fabs(la0), fabs(la1)), cl = cos(maxabs < 1.5 ? maxabs : 1.5);
            double lo0 = P.bbox_u[2] - 2 * (double)w / cl, lo1 = P.bbox_u[3] + 2 * (double)w / cl;
            if (((la1 - la0) / step + 1) * ((lo1 - lo0) / (step / cl) + 1) < 4e5)
                for (double la = la0; la <= la1 + step; la += step)
                    for (double lo = lo0; lo <= lo1 + step / cl; lo += step / cl) {
                        LatLng g = {la > M_PI_2 ? M_PI_2 : la < -M_PI_2 ? -M_PI_2 : la, lo};
                        while (g.lng > M_PI) g.lng -= 2 * M_PI;
                        while (g.lng < -M_PI) g.lng += 2 * M_PI;
                        H3Index h;
                        if (!latLngToCell(&g, res, &h)) push(&cand, h);
                    }
        }
    }
    sort_unique(&cand);
    polyseg S;
    polyseg_build(&P, &S);
    int reported = 0;
    for (int64_t i = 0; i < cand.n && w > 0; i++) {
        H3Index h = cand.a[i];
        if (h == npole || h == spole) continue;
        int v = classify(&P, &S, h, res, w, why, sizeof why);
        int inF = has(&out[1], h), inO = has(&out[2], h);
        switch (v) {
            case V_INTERIOR:
                n_interior++;
                if (!inF && reported < 3) {
                    reported++;
                    vf_violation("full-missed", "polygonToCellsExperimental", key ^ vf_mix(h) ^ 0x80, "", "cell %016" PRIx64 " lies wholly in the polygon's interior (%s) but FULL mode does not return it (%s)", h, why, desc);
                }
                if (!inO && reported < 3) {
                    reported++;
                    vf_violation("overlap-missed", "polygonToCellsExperimental", key ^ vf_mix(h) ^ 0x81, sig_first_vertex(&P, res, h), "cell %016" PRIx64 " lies wholly in the polygon (%s) but OVERLAPPING mode does not return it (%s)", h, why, desc);
                }
                break;
            case V_OVERLAP:
                n_overlap++;
                if (!inO && reported < 3) {
                    reported++;
                    vf_violation("overlap-missed", "polygonToCellsExperimental", key ^ vf_mix(h) ^ 0x82, sig_first_vertex(&P, res, h), "cell %016" PRIx64 " shares a point with the polygon (%s) but OVERLAPPING mode does not return it (%s)", h, why, desc);
                }
                break;
            case V_DISJOINT:
                n_disjoint++;
                if (inO && reported < 3) {
                    reported++;
                    vf_violation("overlap-extra", "polygonToCellsExperimental", key ^ vf_mix(h) ^ 0x83, "", "cell %016" PRIx64 " is disjoint from the polygon (%s) but OVERLAPPING mode returns it (%s)", h, why, desc);
                }
                if (inF && reported < 3) {
                    reported++;
                    vf_violation("full-extra", "polygonToCellsExperimental", key ^ vf_mix(h) ^ 0x84, "", "cell %016" PRIx64 " is disjoint from the polygon (%s) but FULL mode returns it (%s)", h, why, desc);
                }
                break;
            default:
                n_ambig++;
        }
    }
    if (out[2].n > out[1].n) vf_distinct(key);
    if (P.crosses_antimeridian) vf_add("polygons.antimeridian", 1);
    if (P.nholes) vf_add("polygons.with_holes", 1);
    if (strstr(desc, "axis-aligned")) vf_add("polygons.axis_aligned", 1);
    if (strstr(desc, "snapped")) vf_add("polygons.vertices_snapped_to_centre_coordinates", 1);
    if (strstr(desc, "hugging")) vf_add("polygons.hugging_cell_corners", 1);
    if (strstr(desc, "listed twice")) vf_add("polygons.with_a_vertex_listed_twice", 1);
    vf_sample("poly %016" PRIx64 " (%s): FULL %" PRId64 " <= CENTER %" PRId64 " <= OVERLAPPING %" PRId64 " <= BBOX %" PRId64 " cells; bounds %" PRId64 "/%" PRId64 "/%" PRId64 "/%" PRId64, seed, desc, out[1].n, out[0].n, out[2].n, out[3].n, sz[1], sz[0], sz[2], sz[3]);
done:
    for (int m = 0; m < 4; m++) free(out[m].a);
    free(cand.a);
    VF_UNGUARD();
    vf_poly_free(&P);
}

/* witness of the repaired defect F5 (known_findings.json): a 5-gon at res 1 whose first vertex falls in the sliver between the
 * great-circle and the planar reading of a cell edge */
static void witness_f5(void) {
    static LatLng v[5] = {{-0.68459359172457235, 0.23592516284676812}, {-0.68617920147087641, 0.28750299278603336}, {-0.68509845876072961, 0.31423287666733607},
                          {-0.6841880080294197, 0.30900840376120942}, {-0.68440450696689936, 0.28239155250776415}};
    GeoPolygon gp = {{5, v}, 0, NULL};
    H3Index out[64] = {0};
    int found = 0;
    vf_case("witness-f5");
    if (!polygonToCellsExperimental(&gp, 1, CONTAINMENT_OVERLAPPING, 64, out))
        for (int i = 0; i < 64; i++)
            if (out[i] == 0x81d17ffffffffffULL) found = 1;
    vfa_reset();
    /* F5 is repaired (known_findings.json): the witness is an ordinary case now */
    vf_add("witness.F5_cases", 1);
    if (!found)
        vf_violation("overlap-missed", "polygonToCellsExperimental", 0xF5, "overlap-first-vertex", "5-gon at res 1 with four of five vertices 0.05 rad inside 81d17ffffffffff: OVERLAPPING mode does not return that cell");
}

static void run(void) {
    vf_rng r;
    vf_rng_stream(&r, 15);
    if (VF.shard == 0) witness_f5();
    /* witnesses of the repaired defect F7 (hole wholly inside a cell, cell centre in the hole) stay in the workload */
    static const uint64_t F7W[] = {0x2c9dc50a84521724ULL, 0x05a14e501ec9432fULL, 0x077125f62c8c18f4ULL, 0x0a23e61a023696bdULL,
                                   0x130edc910041297aULL, 0x13b02efd8cd00b3fULL, 0x15a2274dae8b5631ULL, 0x1a8835f4dbc4b5ffULL};
    for (unsigned i = 0; i < sizeof F7W / sizeof F7W[0]; i++)
        if (VF_MINE(i)) {
            case_poly(F7W[i]);
            vf_add("witness.F7_cases", 1);
        }
    int n = VF_T(1500, 25000);
    for (int i = 0; i < n; i++) case_poly(vf_u64(&r));
    /* a dedicated share of the special shapes whose seeds end in binary 1110: small ones hug cell corners, large ones have
     * their vertices snapped to cell-centre coordinates (vf_poly_case) */
    int n2 = VF_T(1500, 12000);
    for (int i = 0; i < n2; i++) case_poly((vf_u64(&r) & ~0xFULL) | 0xE);
    vf_add("polygons", n_poly);
    vf_add("cells.definitely_interior", n_interior);
    vf_add("cells.definitely_overlapping", n_overlap);
    vf_add("cells.definitely_disjoint", n_disjoint);
    vf_add("cells.ambiguous", n_ambig);
}
static void replay(const char *spec) {
    uint64_t seed;
    if (sscanf(spec, "poly %" SCNx64, &seed) == 1)
        case_poly(seed);
    else if (!strncmp(spec, "witness-f5", 10))
        witness_f5();
    else
        vf_fatal("bad replay spec: %s", spec);
    vf_add("polygons", n_poly);
}
int main(int argc, char **argv) { return vf_main(argc, argv, "C15", run, replay); }
