#ifndef VF_POLY_H
#define VF_POLY_H
#include "vf.h"

typedef struct {
    double lat0, lng0;   /* centre (lng0 may be near +-pi: antimeridian crossing) */
    double radius;       /* radians, of the outermost vertices before the squeeze */
    double rmin;         /* innermost vertex radius as a fraction (0..1): concavity */
    double aspect;       /* 1 = round, 1/500 = needle */
    double needle_rot;   /* rotation of the squeezed axis */
    int nverts;          /* 3..64 */
    int nholes;          /* 0..3 (star loops); the axis-aligned shapes may carry up to 28 slit holes */
    int holes_cw;        /* orientation of hole loops */
    double hole_scale;   /* 1 = default size */
} vf_poly_opts;

typedef struct {
    GeoPolygon gp;            /* what the library gets (wrapped longitudes) */
#define VF_POLY_MAXH 32
    GeoLoop holes[VF_POLY_MAXH];
    int n, nholes, hn[VF_POLY_MAXH];
    LatLng *outer_u, *outer_w; /* unrolled / wrapped */
    LatLng *hole_u[VF_POLY_MAXH], *hole_w[VF_POLY_MAXH];
    int crosses_antimeridian;
    double bbox_u[4];          /* minlat maxlat minlng maxlng, unrolled */
} vf_poly;

/* returns 1 if a polygon satisfying the well-formedness reading was produced */
int vf_poly_gen(vf_rng *r, const vf_poly_opts *o, vf_poly *p);
void vf_poly_free(vf_poly *p);
/* +1 inside outer and outside all holes, -1 outside, 0 within `band` (radians in the
 * lat/lng plane) of some edge.  *mind (optional) = distance to the nearest edge */
int vf_poly_side(const vf_poly *p, LatLng pt, ld band, ld *mind);
/* polygon + resolution of a standard case (C07, C15) from a 64-bit seed; 0 if the generator rejected it */
int vf_poly_case(uint64_t seed, vf_poly *P, int *res_out, char *desc, size_t dlen);
#endif
