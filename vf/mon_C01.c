/* mon_C01 — cell validity is exactly the documented 64-bit layout; every
 * returned cell is valid (DESIGN.md §5 C01).
 *
 * Oracle: ref_is_valid_cell (vf_kit.c), a loop written from
 * website/docs/library/index/cell.md.  Differential execution of the real
 * isValidCell over a structured enumeration:
 *   (a) all 2^19 settings of the top 19 bits x ~200 digit strings,
 *   (b) every 8^5 assignment of every window of 5 consecutive digit positions,
 *       per resolution x base-cell class x 6 fill patterns,
 *   (c) valid cells with 1..3 flipped bits, (d) uniform 64-bit values.
 * Phase "closure": one call of every cell-returning API per stratum, all
 * outputs through the output-validity monitor.
 */
#include "vf.h"

#include <fenv.h>

static int64_t n_eval, n_valid, n_single, n_multi;

static int fault_mask(uint64_t h) {
    int m = 0;
    if (h >> 63) m |= 1;
    if (VF_MODE(h) != 1) m |= 2;
    if (VF_RSV(h)) m |= 4;
    int bc = VF_BC(h);
    if (bc >= 122) m |= 8;
    int res = VF_RES(h), fnz = 0;
    for (int r = 1; r <= 15; r++) {
        int d = VF_DIGIT(h, r);
        if (r <= res) {
            if (d == 7) m |= 16;
            if (!fnz && d) fnz = d;
        } else if (d != 7)
            m |= 32;
    }
    if (bc < 122 && ref_is_pent_bc(bc) && fnz == 1) m |= 64;
    return m;
}

static void judge(uint64_t h) {
    int want = ref_is_valid_cell(h);
    int got = isValidCell(h);
    n_eval++;
    if (want)
        n_valid++;
    if ((got != 0) != want) {
        char spec[64];
        snprintf(spec, sizeof spec, "v %016" PRIx64, h);
        vf_violation_spec(spec, "predicate", "isValidCell", h, "", "isValidCell(%016" PRIx64 ")=%d but the documented layout says %d (fault mask 0x%x)", h,
                          got, want, fault_mask(h));
    }
    if (got != 0 && got != 1) vf_violation("predicate", "isValidCell", h, "", "returned %d, not 0/1", got);
}
static void judge_counted(uint64_t h) {
    judge(h);
    int m = fault_mask(h);
    if (m == 0 || (m & (m - 1)) == 0) {
        vf_distinct(h);
        if (m) n_single++;
    } else
        n_multi++;
}

/* ---- (a) top 19 bits x digit strings */
static void stratum_top19(vf_rng *r) {
    for (uint64_t top = 0; top < (1u << 19); top++) {
        if (!VF_MINE(top)) continue;
        uint64_t base = top << 45;
        int res = VF_RES(base);
        uint64_t v = base; /* all digits valid: zeros inside, 7 after */
        for (int q = res + 1; q <= 15; q++) v = vf_set_digit(v, q, 7);
        judge_counted(v);
        uint64_t v6 = v;
        for (int q = 1; q <= res; q++) v6 = vf_set_digit(v6, q, 6);
        judge_counted(v6);
        for (int k = 0; k < 40; k++) { /* random valid digits inside */
            uint64_t x = v;
            for (int q = 1; q <= res; q++) x = vf_set_digit(x, q, (int)vf_below(r, 7));
            judge_counted(x);
        }
        for (int p = 1; p <= 15; p++) { /* one 7 planted inside / one non-7 after / 1 after zeros */
            uint64_t x = v6;
            x = vf_set_digit(x, p, p <= res ? 7 : (int)vf_below(r, 7));
            judge_counted(x);
            x = v;
            for (int q = 1; q <= res; q++) x = vf_set_digit(x, q, q < p ? 0 : (int)vf_below(r, 7));
            if (p <= res) x = vf_set_digit(x, p, 1);
            judge_counted(x);
            x = v;
            for (int q = 1; q <= res; q++) x = vf_set_digit(x, q, q < p ? 0 : (int)vf_below(r, 7));
            if (p <= res) x = vf_set_digit(x, p, 2 + (int)vf_below(r, 5));
            judge_counted(x);
        }
        judge_counted(base);
        judge_counted(base | (((uint64_t)1 << 45) - 1));
        for (int k = 0; k < 100; k++) judge_counted(base | (vf_u64(r) >> 19));
    }
}

/* ---- (b) 5-digit windows */
static void stratum_windows(vf_rng *r) {
    int bcs[128], nbc = 0;
    if (VF.thorough) {
        for (int b = 0; b < 128; b++) bcs[nbc++] = b;
    } else {
        static const int hx[] = {0, 1, 60, 120, 121, 122, 123, 127};
        for (unsigned i = 0; i < sizeof hx / sizeof hx[0]; i++) bcs[nbc++] = hx[i];
        for (int i = 0; i < 12; i++) bcs[nbc++] = REF_PENT_BC[i];
    }
    int64_t unit = 0;
    for (int res = 0; res <= 15; res++)
        for (int b = 0; b < nbc; b++)
            for (int w = 1; w <= 11; w++)
                for (int fill = 0; fill < 6; fill++) {
                    if (!VF_MINE(unit++)) continue;
                    uint64_t base = ((uint64_t)1 << 59) | ((uint64_t)res << 52) | ((uint64_t)bcs[b] << 45);
                    for (int q = 1; q <= 15; q++) {
                        int d;
                        switch (fill) {
                            case 0: d = q <= res ? 0 : 7; break;
                            case 1: d = q <= res ? 6 : 7; break;
                            case 2: d = q <= res ? 5 : 7; break;
                            case 3: d = q <= res ? 3 : 7; break;
                            case 4: d = q <= res ? (int)vf_below(r, 7) : 7; break;
                            default: d = (int)vf_below(r, 8);
                        }
                        base = vf_set_digit(base, q, d);
                    }
                    int sh = 3 * (15 - (w + 4));
                    uint64_t mask = ~((uint64_t)0x7FFF << sh);
                    for (uint64_t x = 0; x < 32768; x++) {
                        uint64_t h = (base & mask) | (x << sh);
                        judge(h);
                        if ((x & 63) == (uint64_t)(unit & 63)) { /* sample into the distinct set */
                            int m = fault_mask(h);
                            if (m == 0 || (m & (m - 1)) == 0) {
                                vf_distinct(h);
                                if (m) n_single++;
                            }
                        }
                    }
                    vf_add("windows.units", 1);
                }
}

/* ---- (c),(d) */
static void stratum_flips(vf_rng *r) {
    int64_t n = VF_T(1500000, 40000000);
    for (int64_t i = 0; i < n; i++) {
        uint64_t h = vf_rand_cell(r, (int)vf_below(r, 16));
        int k = 1 + (int)vf_below(r, 3);
        for (int j = 0; j < k; j++) h ^= (uint64_t)1 << vf_below(r, 64);
        judge_counted(h);
    }
    vf_add("flips.cases", n);
    n = VF_T(1500000, 60000000);
    for (int64_t i = 0; i < n; i++) judge_counted(i & 1 ? vf_u64(r) : vf_hostile_index(r));
    vf_add("random.cases", n);
}

/* ---- closure clause: every cell-returning API, outputs through the validity monitor */
static void closure_cell(H3Index h, vf_rng *r) {
    int res = VF_RES(h);
    H3Index o, o2;
    LatLng g;
    vf_case("closure %016" PRIx64, h);
    if (!cellToLatLng(h, &g) && !latLngToCell(&g, res, &o)) vf_out_cell("latLngToCell", o, res);
    if (res > 0) {
        int pr = (int)vf_below(r, res);
        if (!cellToParent(h, pr, &o)) vf_out_cell("cellToParent", o, pr);
    }
    int cr = res + (int)vf_below(r, 3);
    if (cr > 15) cr = 15;
    if (!cellToCenterChild(h, cr, &o)) vf_out_cell("cellToCenterChild", o, cr);
    int64_t n;
    if (!cellToChildrenSize(h, cr, &n)) {
        H3Index *ch = vf_buf_new((size_t)n * 8, 0);
        if (!cellToChildren(h, cr, ch))
            for (int64_t i = 0; i < n; i++) vf_out_cell("cellToChildren", ch[i], cr);
        if (!childPosToCell((int64_t)vf_below(r, (uint64_t)n), h, cr, &o)) vf_out_cell("childPosToCell", o, cr);
        /* compact / uncompact the family */
        H3Index *cp = vf_buf_new((size_t)n * 8, 0);
        if (!compactCells(ch, cp, n)) {
            int64_t m = 0;
            for (int64_t i = 0; i < n; i++)
                if (cp[i]) {
                    vf_out_cell("compactCells", cp[i], -1);
                    cp[m++] = cp[i];
                }
            H3Index *un = vf_buf_new((size_t)n * 8, 0);
            if (!uncompactCells(cp, m, un, n, cr))
                for (int64_t i = 0; i < n; i++)
                    if (un[i]) vf_out_cell("uncompactCells", un[i], cr);
            vf_buf_free(un);
        }
        vf_buf_free(cp);
        vf_buf_free(ch);
    }
    int k = 1 + (int)vf_below(r, 3);
    int64_t sz;
    maxGridDiskSize(k, &sz);
    H3Index *d = vf_buf_new((size_t)sz * 8, 0);
    int *dist = vf_buf_new((size_t)sz * 4, 0);
#define OUTS(fn, arr, cnt) \
    for (int64_t i_ = 0; i_ < (cnt); i_++) \
        if ((arr)[i_]) vf_out_cell(fn, (arr)[i_], res)
    if (!gridDisk(h, k, d)) OUTS("gridDisk", d, sz);
    memset(d, 0, (size_t)sz * 8);
    if (!gridDiskDistances(h, k, d, dist)) OUTS("gridDiskDistances", d, sz);
    memset(d, 0, (size_t)sz * 8);
    if (!gridDiskDistancesSafe(h, k, d, dist)) OUTS("gridDiskDistancesSafe", d, sz);
    memset(d, 0, (size_t)sz * 8);
    if (!gridDiskUnsafe(h, k, d)) OUTS("gridDiskUnsafe", d, sz);
    memset(d, 0, (size_t)sz * 8);
    if (!gridDiskDistancesUnsafe(h, k, d, dist)) OUTS("gridDiskDistancesUnsafe", d, sz);
    memset(d, 0, (size_t)sz * 8);
    if (!gridRingUnsafe(h, k, d)) OUTS("gridRingUnsafe", d, 6 * k);
    memset(d, 0, (size_t)sz * 8);
    H3Index one[1] = {h};
    if (!gridDisksUnsafe(one, 1, k, d)) OUTS("gridDisksUnsafe", d, sz);
    /* path and local ij towards a disk member */
    memset(d, 0, (size_t)sz * 8);
    if (!gridDisk(h, k, d)) {
        H3Index t = d[vf_below(r, (uint64_t)sz)];
        int64_t pn;
        if (t && !gridPathCellsSize(h, t, &pn)) {
            H3Index *p = vf_buf_new((size_t)pn * 8, 0);
            if (!gridPathCells(h, t, p)) OUTS("gridPathCells", p, pn);
            vf_buf_free(p);
        }
        CoordIJ ij;
        if (t && !cellToLocalIj(h, t, 0, &ij)) {
            ij.i += (int)vf_below(r, 5) - 2;
            ij.j += (int)vf_below(r, 5) - 2;
            if (!localIjToCell(h, &ij, 0, &o)) vf_out_cell("localIjToCell", o, res);
        }
        /* edges */
        H3Index e[6] = {0};
        if (!originToDirectedEdges(h, e))
            for (int i = 0; i < 6; i++)
                if (e[i]) {
                    H3Index od[2];
                    if (!getDirectedEdgeOrigin(e[i], &o)) vf_out_cell("getDirectedEdgeOrigin", o, res);
                    if (!getDirectedEdgeDestination(e[i], &o2)) vf_out_cell("getDirectedEdgeDestination", o2, res);
                    if (!directedEdgeToCells(e[i], od)) {
                        vf_out_cell("directedEdgeToCells", od[0], res);
                        vf_out_cell("directedEdgeToCells", od[1], res);
                    }
                }
    }
    vf_buf_free(d);
    vf_buf_free(dist);
    /* polygon around the cell: both polyfills */
    CellBoundary cb;
    if (!cellToBoundary(h, &cb) && res <= 13) {
        LatLng c;
        cellToLatLng(h, &c);
        if (fabs(c.lat) < 1.3 && fabs(c.lng) < 3.0) {
            double w = 0;
            for (int i = 0; i < cb.numVerts; i++) {
                double dd = greatCircleDistanceRads(&c, &cb.verts[i]);
                if (dd > w) w = dd;
            }
            double a = 2.5 * w, b = a / cos(c.lat);
            if (c.lng - b > -M_PI && c.lng + b < M_PI) {
                LatLng v[4] = {{c.lat - a, c.lng - b}, {c.lat - a, c.lng + b}, {c.lat + a, c.lng + b}, {c.lat + a, c.lng - b}};
                GeoPolygon gp = {{4, v}, 0, NULL};
                int64_t ps;
                if (!maxPolygonToCellsSize(&gp, res, 0, &ps) && ps < 100000) {
                    H3Index *po = vf_buf_new((size_t)ps * 8, 0);
                    if (!polygonToCells(&gp, res, 0, po)) OUTS("polygonToCells", po, ps);
                    vf_buf_free(po);
                }
                for (uint32_t fl = 0; fl < 4; fl++)
                    if (!maxPolygonToCellsSizeExperimental(&gp, res, fl, &ps) && ps < 100000) {
                        H3Index *po = vf_buf_new((size_t)ps * 8, 0);
                        if (!polygonToCellsExperimental(&gp, res, fl, ps, po)) OUTS("polygonToCellsExperimental", po, ps);
                        vf_buf_free(po);
                    }
            }
        }
    }
    vf_add("closure.cells", 1);
    /* ---- the same APIs far from the trivial arguments: hierarchy depths up to 15 (positions beyond 2^31 and 2^32, where a
     * narrowed integer shows), local IJ coordinates tens of cells away, longitudes outside [-pi, pi], long paths */
    for (int cr2 = res; cr2 <= 15; cr2 += 1 + (int)vf_below(r, 3)) {
        if (!cellToCenterChild(h, cr2, &o)) vf_out_cell("cellToCenterChild", o, cr2);
        int64_t cn = 0;
        if (cellToChildrenSize(h, cr2, &cn) || cn <= 0) continue;
        int64_t pos[8] = {0, cn - 1, cn / 2, (int64_t)vf_below(r, (uint64_t)cn), (int64_t)vf_below(r, (uint64_t)cn), (int64_t)1 << 31, ((int64_t)1 << 32) + 12345, cn - 1 - (int64_t)vf_below(r, 1 + (uint64_t)(cn / 7))};
        for (int i = 0; i < 8; i++)
            if (pos[i] >= 0 && pos[i] < cn && !childPosToCell(pos[i], h, cr2, &o)) {
                vf_out_cell("childPosToCell", o, cr2);
                if (!cellToParent(o, res, &o2)) vf_out_cell("cellToParent", o2, res);
            }
    }
    for (int pr = 0; pr < res; pr++)
        if (!cellToParent(h, pr, &o)) vf_out_cell("cellToParent", o, pr);
    {
        CoordIJ ij;
        if (!cellToLocalIj(h, h, 0, &ij))
            for (int i = 0; i < 6; i++) {
                CoordIJ q = {ij.i + (int)vf_below(r, 121) - 60, ij.j + (int)vf_below(r, 121) - 60};
                if (!localIjToCell(h, &q, 0, &o)) {
                    vf_out_cell("localIjToCell", o, res);
                    int64_t pn;
                    if (i == 0 && !gridPathCellsSize(h, o, &pn) && pn < 400) {
                        H3Index *p = vf_buf_new((size_t)pn * 8, 0);
                        if (!gridPathCells(h, o, p)) OUTS("gridPathCells", p, pn);
                        vf_buf_free(p);
                    }
                }
            }
        if (!cellToLatLng(h, &g)) {
            double shift[5] = {-2 * M_PI, 2 * M_PI, 0, 0, 0};
            for (int i = 0; i < 5; i++) {
                LatLng q = {g.lat + (i >= 2 ? (vf_unit(r) - 0.5) * 0.02 : 0), g.lng + shift[i] + (i >= 2 ? (vf_unit(r) - 0.5) * 0.02 : 0)};
                if (fabs(q.lng) > 2 * M_PI || fabs(q.lat) > M_PI / 2) continue;
                int rr = i == 4 ? (int)vf_below(r, 16) : res;
                if (!latLngToCell(&q, rr, &o)) vf_out_cell("latLngToCell", o, rr);
            }
        }
    }
    vf_add("closure.deep", 1);
}
/* every cell centre of a whole coarse resolution through latLngToCell: the result must be a valid cell (thin regions where the
 * face/rotation logic of the indexing pipeline goes wrong hold only a handful of cell centres per resolution) */
static void closure_centre(uint64_t h, int64_t i, void *u) {
    (void)i;
    (void)u;
    LatLng g;
    H3Index o;
    int res = VF_RES(h);
    if (!cellToLatLng(h, &g) && !latLngToCell(&g, res, &o)) vf_out_cell("latLngToCell", o, res);
    if (res < 15 && !latLngToCell(&g, res + 1, &o)) vf_out_cell("latLngToCell", o, res + 1);
}
static void stratum_closure(vf_rng *r) {
    H3Index seeds[400];
    int64_t idx = 0;
    vf_case("closure-centres");
    for (int res = 0; res <= VF_T(5, 6); res++) ref_enum_res(res, 1, closure_centre, NULL);
    /* complete families eight levels deep through cellToChildren and uncompactCells (5.8 M / 4.8 M cells each): every cell handed
     * out must be a cell; a slip in the carry from one child to the next shows only after 7^6 and more children */
    for (int i = 0; i < VF_T(2, 6); i++) {
        int res = (int)vf_below(r, 8);
        H3Index h = (i & 1) ? vf_make_cell(res, REF_PENT_BC[vf_below(r, 12)], (int[15]){0}) : vf_rand_cell(r, res);
        if (!VF_MINE(idx++)) continue;
        int64_t n = 0;
        vf_case("deepfamily %016" PRIx64, h);
        if (cellToChildrenSize(h, res + 8, &n) || n <= 0 || n > 6000000) continue;
        H3Index *ch = vf_buf_new((size_t)n * 8, 0);
        if (!cellToChildren(h, res + 8, ch))
            for (int64_t q = 0; q < n; q++) vf_out_cell("cellToChildren", ch[q], res + 8);
        memset(ch, 0, (size_t)n * 8);
        if (!uncompactCells(&h, 1, ch, n, res + 8))
            for (int64_t q = 0; q < n; q++) vf_out_cell("uncompactCells", ch[q], res + 8);
        vf_buf_free(ch);
        vf_add("closure.families_eight_levels_deep", 1);
    }
    for (int res = 0; res <= 15; res++) {
        H3Index p[12], r0[122];
        if (!getPentagons(res, p))
            for (int i = 0; i < 12; i++) vf_out_cell("getPentagons", p[i], res);
        if (res == 0 && !getRes0Cells(r0))
            for (int i = 0; i < 122; i++) vf_out_cell("getRes0Cells", r0[i], 0);
        int n = vf_special_seeds(res, VF_T(2, 6), seeds, 400);
        for (int i = 0; i < n; i++)
            if (VF_MINE(idx++)) {
                closure_cell(seeds[i], r);
                if (i < 12) {
                    /* the cells around each pentagon as origins too (their own disks, edges, paths start beside the pentagon) */
                    H3Index dk[19] = {0};
                    if (!gridDisk(seeds[i], VF_T(1, 2), dk))
                        for (int j = 0; j < 19; j++)
                            if (dk[j] && dk[j] != seeds[i]) closure_cell(dk[j], r);
                }
            }
        int nr = VF_T(30, 400);
        for (int i = 0; i < nr; i++) closure_cell(vf_rand_cell(r, res), r);
    }
    /* the same drive with the calling thread in each directed floating-point rounding mode (part of the environment a caller
     * may be in): outputs may legitimately differ in the last place, but every returned index must still be a valid cell */
    {
        static const int modes[3] = {FE_UPWARD, FE_DOWNWARD, FE_TOWARDZERO};
        for (int m = 0; m < 3; m++)
            for (int res = 0; res <= 15; res++) {
                int n = vf_special_seeds(res, 1, seeds, 400);
                for (int i = 0; i < n && i < 16; i++)
                    if (VF_MINE(idx++)) {
                        fesetround(modes[m]);
                        closure_cell(seeds[i], r);
                        fesetround(FE_TONEAREST);
                        vf_add("closure.cells_under_directed_rounding", 1);
                    }
                for (int i = 0; i < VF_T(4, 40); i++) {
                    H3Index h = vf_rand_cell(r, res);
                    fesetround(modes[m]);
                    closure_cell(h, r);
                    fesetround(FE_TONEAREST);
                    vf_add("closure.cells_under_directed_rounding", 1);
                }
            }
    }
}

static void run(void) {
    vf_rng r;
    vf_rng_stream(&r, 1);
    if (!strcmp(VF.phase, "closure")) {
        stratum_closure(&r);
        /* a slice of the differential run under the sanitizers */
        int64_t n = VF_T(300000, 3000000);
        for (int64_t i = 0; i < n; i++) judge_counted(vf_hostile_index(&r));
    } else {
        stratum_top19(&r);
        stratum_windows(&r);
        stratum_flips(&r);
    }
    vf_add("evaluations", n_eval);
    vf_add("ref_valid", n_valid);
    vf_add("single_fault_invalid", n_single);
    vf_add("multi_fault_invalid", n_multi);
    vf_sample("isValidCell(085283473fffffff)=%d ref=%d", isValidCell(0x85283473fffffffULL), ref_is_valid_cell(0x85283473fffffffULL));
    vf_sample("isValidCell(0820740000000001)=%d ref=%d fault=0x%x", isValidCell(0x820740000000001ULL), ref_is_valid_cell(0x820740000000001ULL),
              fault_mask(0x820740000000001ULL));
}
static void replay(const char *spec) {
    uint64_t h;
    if (sscanf(spec, "v %" SCNx64, &h) == 1) {
        judge_counted(h);
        vf_add("evaluations", n_eval);
        return;
    }
    if (sscanf(spec, "closure %" SCNx64, &h) == 1) {
        vf_rng r;
        for (uint64_t s = 0; s < 50; s++) {
            vf_rng_seed(&r, s);
            closure_cell(h, &r);
        }
        return;
    }
    vf_fatal("bad replay spec: %s", spec);
}
int main(int argc, char **argv) { return vf_main(argc, argv, "C01", run, replay); }
