/* mon_C12 — every API call is memory-safe and total on arbitrary arguments
 * (DESIGN.md §5 C12 and Appendix A).
 *
 * Monitors: ASan+UBSan(+float-cast-overflow) fatal, exact-size heap buffers
 * for every input and output, assertion interceptor (any hit of an internal
 * 'cannot happen' check is a violation keyed by file:line), return code within
 * 0..15, documented code for out-of-domain scalars (only where the call is
 * otherwise well-formed), per-call CPU-time watchdog (totality).  Phases: asan (assertions
 * on), asan-ndebug (release behaviour of the same workload: the "self-healing"
 * branches must be memory-safe too), memcheck (thorough tier, small slice).
 */
#include <signal.h>
#include <unistd.h>

#include "vf.h"

#define CAP_SLOTS 2000000

static vf_rng *R;
static const char *volatile CUR = "?";
static int64_t n_calls, n_skipped_size, n_judged;

static void bad_code(const char *fn, H3Error e) {
    if (e > 15) vf_violation("bad-code", fn, vf_mix(e) ^ vf_mix((uint64_t)(uintptr_t)fn), "", "%s returned %u, not one of the sixteen documented codes", fn, e);
}
static void expect(const char *fn, H3Error e, H3Error want, const char *why) {
    n_judged++;
    if (e != want) vf_violation("wrong-code", fn, vf_mix(want * 31 + e) ^ vf_mix((uint64_t)(uintptr_t)fn), "", "%s: %s -> rc=%u, documented code %u", fn, why, e, want);
}
#define CALL(fn) (CUR = #fn, n_calls++)

/* ---- argument generators */
static H3Index valid_cell(void) { return vf_rand_cell(R, (int)vf_below(R, 16)); }
static H3Index any_index(void) { return vf_below(R, 10) < 7 ? vf_hostile_index(R) : valid_cell(); }
static int any_res(void) { return vf_below(R, 10) < 7 ? (int)vf_below(R, 16) : vf_hostile_int(R); }
static int small_k(void) {
    switch (vf_below(R, 10)) {
        case 0: return vf_hostile_int(R);
        case 1: return -1 - (int)vf_below(R, 3);
        case 2: return 9 + (int)vf_below(R, 40);
        default: return (int)vf_below(R, 8);
    }
}
static H3Index edge_index(void) {
    H3Index h = valid_cell();
    if (vf_below(R, 3) == 0) return vf_hostile_index(R);
    return vf_set_rsv(vf_set_mode(h, vf_below(R, 8) ? 2 : (int)vf_below(R, 16)), (int)vf_below(R, 8));
}
static H3Index vertex_index(void) {
    H3Index h = valid_cell(), v[6] = {0};
    if (vf_below(R, 3) == 0) return vf_hostile_index(R);
    if (vf_below(R, 2) && !cellToVertexes(h, v)) {
        H3Index x = v[vf_below(R, 6)];
        if (x) return vf_below(R, 4) ? x : x ^ ((uint64_t)1 << vf_below(R, 64));
    }
    return vf_set_rsv(vf_set_mode(h, 4), (int)vf_below(R, 8));
}
static LatLng any_ll(void) {
    LatLng g;
    if (vf_below(R, 2)) {
        g = vf_rand_ll(R);
    } else {
        g.lat = vf_hostile_double(R);
        g.lng = vf_hostile_double(R);
    }
    return g;
}

/* hostile polygon: exact-size heap copies of every vertex array */
typedef struct {
    GeoPolygon gp;
    GeoLoop *holes;
    int hostile_coords; /* some coordinate non-finite or outside the valid range */
} hpoly;
static LatLng *gen_loop(int n, LatLng c, double rad, int *hostile) {
    LatLng *v = vf_buf_new((size_t)n * sizeof(LatLng), 0);
    double a0 = vf_unit(R) * 6.28;
    int mode = (int)vf_below(R, 8);
    for (int i = 0; i < n; i++) {
        double a = a0 + 6.2832 * i / (n ? n : 1), r = rad * (0.3 + 0.7 * vf_unit(R));
        v[i].lat = c.lat + r * sin(a);
        v[i].lng = c.lng + r * cos(a);
        if (mode == 0 || (mode == 1 && vf_below(R, 4) == 0)) { /* hostile coordinate */
            if (vf_below(R, 2)) v[i].lat = vf_hostile_double(R);
            else v[i].lng = vf_hostile_double(R);
        }
        if (mode == 2 && i > 0 && vf_below(R, 3) == 0) v[i] = v[i - 1]; /* repeated vertex */
        if (mode == 3) {                                               /* self-intersecting: random order */
            v[i].lat = c.lat + rad * (vf_unit(R) - 0.5);
            v[i].lng = c.lng + rad * (vf_unit(R) - 0.5);
        }
        /* finite but out-of-range coordinates describe a polygon that (in the planar reading) covers a large part of
         * the globe: legitimately huge work at fine resolutions, see t_polygons */
        if ((isfinite(v[i].lat) && fabs(v[i].lat) > M_PI_2) || (isfinite(v[i].lng) && fabs(v[i].lng) > M_PI)) *hostile = 1;
    }
    return v;
}
static void hpoly_gen(hpoly *p, int res) {
    memset(p, 0, sizeof *p);
    LatLng c = vf_rand_ll(R);
    c.lat *= 0.9;
    if (vf_below(R, 5) == 0) c.lng = vf_below(R, 2) ? 3.14 : -3.14;
    double w = 0.35 / pow(2.6457, res); /* about one cell width */
    double rad = w * (0.2 + 6 * vf_unit(R));
    if (vf_below(R, 12) == 0) rad = 0.5 + vf_unit(R); /* very large */
    int n = vf_below(R, 6) == 0 ? (int)vf_below(R, 3) : 3 + (int)vf_below(R, 10);
    p->gp.geoloop.numVerts = n;
    p->gp.geoloop.verts = gen_loop(n, c, rad, &p->hostile_coords);
    int nh = vf_below(R, 3) == 0 ? 1 + (int)vf_below(R, 2) : 0;
    if (vf_below(R, 10) == 0) nh = 3 + (int)vf_below(R, 30); /* many holes (overlapping or not: any arrangement must be safe) */
    p->gp.numHoles = nh;
    if (nh) {
        p->holes = vf_buf_new((size_t)nh * sizeof(GeoLoop), 0);
        for (int h = 0; h < nh; h++) {
            int hn = vf_below(R, 4) == 0 ? 0 : 3 + (int)vf_below(R, 5);
            p->holes[h].numVerts = hn;
            p->holes[h].verts = gen_loop(hn, c, nh > 2 ? rad * (0.5 + 0.5 * vf_unit(R)) : rad * 0.3, &p->hostile_coords);
        }
        p->gp.holes = p->holes;
    } else
        p->gp.holes = NULL;
}
static void hpoly_free(hpoly *p) {
    vf_buf_free(p->gp.geoloop.verts);
    for (int h = 0; h < p->gp.numHoles; h++) vf_buf_free(p->holes[h].verts);
    vf_buf_free(p->holes);
}
/* hostile cell set */
static H3Index *cell_set(int *n_out, int *wellformed) {
    int kind = (int)vf_below(R, 6), res = (int)vf_below(R, 16), n = 0;
    H3Index tmp[512];
    H3Index c = vf_rand_cell(R, res);
    *wellformed = 1;
    if (kind <= 2) {
        int k = (int)vf_below(R, 5);
        H3Index d[61] = {0};
        if (!gridDisk(c, k, d))
            for (int i = 0; i < 61; i++)
                if (d[i] && (kind != 1 || vf_below(R, 4))) tmp[n++] = d[i];
    } else if (kind == 3 && res >= 1) {
        ref_child_iter it;
        int d = 1 + (int)vf_below(R, res < 3 ? (uint64_t)res : 3);
        for (ref_child_iter_init(&it, ref_parent(c, res - d), res); !it.done && n < 400; ref_child_iter_next(&it)) tmp[n++] = it.h;
        /* plus some complete sibling groups from elsewhere: several parents survive into the second compaction round next to
         * the complete family (the later rounds run in a table sized for the first) */
        if (vf_below(R, 2))
            for (int g = 1 + (int)vf_below(R, 12); g > 0 && n + 7 <= 500; g--) {
                H3Index q = vf_rand_cell(R, res - 1);
                if (vf_below(R, 3) == 0) { /* near the family */
                    H3Index dd[19] = {0};
                    int pick = 7 + (int)vf_below(R, 12);
                    if (!gridDisk(ref_parent(c, res - 1), 2, dd) && dd[pick]) q = dd[pick];
                }
                if (ref_parent(q, res - d) == ref_parent(c, res - d)) continue;
                for (ref_child_iter_init(&it, q, res); !it.done && n < 510; ref_child_iter_next(&it)) tmp[n++] = it.h;
            }
    } else {
        n = (int)vf_below(R, 12);
        for (int i = 0; i < n; i++) tmp[i] = vf_rand_cell(R, res);
    }
    if (vf_below(R, 3) == 0 && n < 500) { /* malformed: duplicates, mixed resolutions, H3_NULL, reserved bits, garbage */
        *wellformed = 0;
        int m = 1 + (int)vf_below(R, 4);
        for (int i = 0; i < m && n < 510; i++) switch (vf_below(R, 5)) {
                case 0: tmp[n++] = n ? tmp[vf_below(R, (uint64_t)n)] : c; break;
                case 1: tmp[n++] = valid_cell(); break;
                case 2: tmp[n++] = 0; break;
                case 3: if (n) tmp[vf_below(R, (uint64_t)n)] = vf_set_rsv(c, 1 + (int)vf_below(R, 7)); break;
                default: tmp[n++] = vf_hostile_index(R);
            }
    }
    for (int i = n - 1; i > 0; i--) {
        int j = (int)vf_below(R, (uint64_t)i + 1);
        H3Index t = tmp[i];
        tmp[i] = tmp[j];
        tmp[j] = t;
    }
    H3Index *s = vf_buf_new((size_t)n * 8, 0);
    memcpy(s, tmp, (size_t)n * 8);
    *n_out = n;
    return s;
}

/* ================================================================== the call table */
static void t_latLngToCell(void) {
    LatLng *g = vf_buf_new(sizeof(LatLng), 0);
    *g = any_ll();
    int res = any_res();
    H3Index *out = vf_buf_new(8, 0x77);
    CALL(latLngToCell);
    H3Error e = latLngToCell(g, res, out);
    bad_code(CUR, e);
    int fin = isfinite(g->lat) && isfinite(g->lng);
    if (res < 0 || res > 15) {
        n_judged++;
        if (!(e == E_RES_DOMAIN || (!fin && e == E_LATLNG_DOMAIN))) vf_violation("wrong-code", CUR, 1, "", "res %d: rc=%u", res, e);
    } else if (!fin)
        expect(CUR, e, E_LATLNG_DOMAIN, "non-finite coordinate");
    else
        expect(CUR, e, E_SUCCESS, "finite coordinates, valid resolution");
    if (!e) vf_out_cell(CUR, *out, res);
    vf_buf_free(g);
    vf_buf_free(out);
}
static void t_cell_scalar(void) { /* fixed-size single-index functions */
    H3Index h = any_index();
    LatLng *g = vf_buf_new(sizeof(LatLng), 0);
    CellBoundary *cb = vf_buf_new(sizeof(CellBoundary), 0);
    double *d = vf_buf_new(8, 0);
    int *iv = vf_buf_new(4, 0);
    H3Error e;
    CALL(cellToLatLng), e = cellToLatLng(h, g), bad_code(CUR, e);
    if (ref_is_valid_cell(h)) expect(CUR, e, E_SUCCESS, "valid cell");
    CALL(cellToBoundary), e = cellToBoundary(h, cb), bad_code(CUR, e);
    if (!e && (cb->numVerts < 0 || cb->numVerts > MAX_CELL_BNDRY_VERTS)) vf_violation("bad-output", CUR, 2, "", "numVerts=%d", cb->numVerts);
    CALL(cellAreaRads2), bad_code(CUR, cellAreaRads2(h, d));
    CALL(cellAreaKm2), bad_code(CUR, cellAreaKm2(h, d));
    CALL(cellAreaM2), bad_code(CUR, cellAreaM2(h, d));
    CALL(maxFaceCount), e = maxFaceCount(h, iv), bad_code(CUR, e);
    CALL(isPentagon), (void)isPentagon(h);
    CALL(isResClassIII), (void)isResClassIII(h);
    CALL(getResolution), (void)getResolution(h);
    CALL(getBaseCellNumber), (void)getBaseCellNumber(h);
    CALL(isValidCell), (void)isValidCell(h);
    CALL(isValidDirectedEdge), (void)isValidDirectedEdge(h);
    CALL(isValidVertex), (void)isValidVertex(h);
    vf_buf_free(g);
    vf_buf_free(cb);
    vf_buf_free(d);
    vf_buf_free(iv);
}
static void t_faces(void) {
    H3Index h = any_index();
    int mfc = -1;
    CALL(maxFaceCount);
    H3Error e = maxFaceCount(h, &mfc);
    bad_code(CUR, e);
    int n = (!e && mfc > 0 && mfc <= 20) ? mfc : 1; /* undefined-size call: 1-slot guarded buffer, observed only */
    int *out = vf_buf_new((size_t)n * 4, 0x55);
    CALL(getIcosahedronFaces);
    if (!e || vf_below(R, 4) == 0) bad_code(CUR, getIcosahedronFaces(h, out));
    vf_buf_free(out);
}
static void t_parent_child(void) {
    H3Index h = any_index();
    int r = any_res(), valid = ref_is_valid_cell(h), res = VF_RES(h);
    H3Index *o = vf_buf_new(8, 0);
    int64_t *n = vf_buf_new(8, 0);
    H3Error e;
    CALL(cellToParent), e = cellToParent(h, r, o), bad_code(CUR, e);
    if (valid) expect(CUR, e, (r < 0 || r > 15) ? E_RES_DOMAIN : r > res ? E_RES_MISMATCH : E_SUCCESS, "valid cell, parentRes");
    if (valid && !e) vf_out_cell(CUR, *o, r);
    CALL(cellToChildrenSize), e = cellToChildrenSize(h, r, n), bad_code(CUR, e);
    if (valid) expect(CUR, e, (r < res || r > 15) ? E_RES_DOMAIN : E_SUCCESS, "valid cell, childRes");
    H3Error esz = e;
    int64_t cnt = *n;
    CALL(cellToCenterChild), e = cellToCenterChild(h, r, o), bad_code(CUR, e);
    if (valid) expect(CUR, e, (r < res || r > 15) ? E_RES_DOMAIN : E_SUCCESS, "valid cell, childRes");
    if (valid && !e) vf_out_cell(CUR, *o, r);
    CALL(cellToChildren);
    if (!esz && cnt >= 0 && cnt <= 823543) {
        H3Index *ch = vf_buf_new((size_t)cnt * 8, 0);
        e = cellToChildren(h, r, ch), bad_code(CUR, e);
        if (vf_buf_check(ch)) vf_violation("overrun", CUR, 3, "", "canary damaged (size %" PRId64 ")", cnt);
        vf_buf_free(ch);
    } else if (esz) { /* size function is the gate: observed only, 1-slot buffer */
        H3Index *ch = vf_buf_new(8, 0);
        if (r < 0 || r > 15 || r < res) bad_code(CUR, cellToChildren(h, r, ch));
        vf_buf_free(ch);
    } else
        n_skipped_size++;
    /* child positions */
    int pr = any_res();
    int64_t *pos = vf_buf_new(8, 0);
    CALL(cellToChildPos), e = cellToChildPos(h, pr, pos), bad_code(CUR, e);
    if (valid) expect(CUR, e, (pr < 0 || pr > 15) ? E_RES_DOMAIN : pr > res ? E_RES_MISMATCH : E_SUCCESS, "valid child, parentRes");
    int64_t p = vf_below(R, 3) == 0 ? (int64_t)vf_u64(R) : vf_below(R, 3) == 0 ? -1 - (int64_t)vf_below(R, 5) : (int64_t)vf_below(R, 3000);
    CALL(childPosToCell), e = childPosToCell(p, h, r, o), bad_code(CUR, e);
    if (valid) {
        H3Error want = (r < 0 || r > 15) ? E_RES_DOMAIN : r < res ? E_RES_MISMATCH : (p < 0 || p >= ref_children_count(h, r)) ? E_DOMAIN : E_SUCCESS;
        expect(CUR, e, want, "valid parent, childRes, position");
        if (!e) vf_out_cell(CUR, *o, r);
    }
    vf_buf_free(o);
    vf_buf_free(n);
    vf_buf_free(pos);
}
static void t_disks(void) {
    H3Index h = any_index();
    int k = small_k(), valid = ref_is_valid_cell(h);
    int64_t sz = -1;
    CALL(maxGridDiskSize);
    H3Error e = maxGridDiskSize(k, &sz);
    bad_code(CUR, e);
    expect(CUR, e, k < 0 ? E_DOMAIN : E_SUCCESS, "k");
    if (!e && k >= 13780510 && sz != 569707381193162LL) vf_violation("bad-output", CUR, 4, "", "k=%d -> %" PRId64, k, sz);
    if (e) {
        /* k < 0: nothing may be written, documented code E_DOMAIN; 1-slot guarded buffers */
        H3Index *o = vf_buf_new(8, 0x11);
        int *d = vf_buf_new(4, 0x11);
        H3Index o0 = *o;
        CALL(gridDisk), e = gridDisk(h, k, o), bad_code(CUR, e), expect(CUR, e, E_DOMAIN, "k<0");
        if (*o != o0) vf_violation("touched", "gridDisk", 5, "", "output written although k=%d is rejected", k), *o = o0;
        CALL(gridDiskDistances), e = gridDiskDistances(h, k, o, d), bad_code(CUR, e), expect(CUR, e, E_DOMAIN, "k<0");
        if (*o != o0) vf_violation("touched", "gridDiskDistances", 5, "", "output written although k=%d is rejected", k), *o = o0;
        CALL(gridDiskDistancesSafe), e = gridDiskDistancesSafe(h, k, o, d), bad_code(CUR, e), expect(CUR, e, E_DOMAIN, "k<0");
        if (*o != o0) vf_violation("touched", "gridDiskDistancesSafe", 5, "", "output written although k=%d is rejected", k), *o = o0;
        CALL(gridDiskUnsafe), e = gridDiskUnsafe(h, k, o), bad_code(CUR, e), expect(CUR, e, E_DOMAIN, "k<0");
        if (*o != o0) vf_violation("touched", "gridDiskUnsafe", 5, "", "output written although k=%d is rejected", k), *o = o0;
        CALL(gridDiskDistancesUnsafe), e = gridDiskDistancesUnsafe(h, k, o, d), bad_code(CUR, e), expect(CUR, e, E_DOMAIN, "k<0");
        if (*o != o0) vf_violation("touched", "gridDiskDistancesUnsafe", 5, "", "output written although k=%d is rejected", k), *o = o0;
        CALL(gridDisksUnsafe), e = gridDisksUnsafe(&h, 1, k, o), bad_code(CUR, e), expect(CUR, e, E_DOMAIN, "k<0");
        if (*o != o0) vf_violation("touched", "gridDisksUnsafe", 5, "", "output written although k=%d is rejected", k), *o = o0;
        CALL(gridRingUnsafe), e = gridRingUnsafe(h, k, o), bad_code(CUR, e); /* observed only */
        (void)o0;
        vf_buf_free(o);
        vf_buf_free(d);
        return;
    }
    /* The recursive "safe" algorithm (also the fallback of gridDisk/gridDiskDistances next to a pentagon) revisits
     * cells whenever a shorter route turns up; its cost depends erratically on the origin (measured without
     * sanitizers: 0.1 s at k = 80 for one res-9 origin, 1 s at k = 40 and > 2 min at k = 114 for a res-15 one).
     * It terminates, so a slow call is not a totality violation: k is capped where every call finishes in
     * seconds, larger k is skipped and counted, and the per-call watchdog only fires on calls that never return. */
    if (sz > CAP_SLOTS || k > 30) {
        n_skipped_size++;
        return;
    }
    H3Index *o = vf_buf_new((size_t)sz * 8, 0);
    int *d = vf_buf_new((size_t)sz * 4, 0);
#define CHK(fn) \
    if (vf_buf_check(o) || vf_buf_check(d)) vf_violation("overrun", fn, 6, "", "canary damaged (k=%d)", k)
    CALL(gridDisk), e = gridDisk(h, k, o), bad_code(CUR, e);
    CHK("gridDisk");
    if (valid) expect(CUR, e, E_SUCCESS, "valid origin, k>=0");
    memset(o, 0, (size_t)sz * 8);
    CALL(gridDiskDistances), e = gridDiskDistances(h, k, o, d), bad_code(CUR, e);
    CHK("gridDiskDistances");
    if (valid) expect(CUR, e, E_SUCCESS, "valid origin, k>=0");
    memset(o, 0, (size_t)sz * 8);
    memset(d, 0, (size_t)sz * 4);
    CALL(gridDiskDistancesSafe), e = gridDiskDistancesSafe(h, k, o, d), bad_code(CUR, e);
    CHK("gridDiskDistancesSafe");
    memset(o, 0, (size_t)sz * 8);
    CALL(gridDiskUnsafe), e = gridDiskUnsafe(h, k, o), bad_code(CUR, e);
    CHK("gridDiskUnsafe");
    memset(o, 0, (size_t)sz * 8);
    CALL(gridDiskDistancesUnsafe), e = gridDiskDistancesUnsafe(h, k, o, d), bad_code(CUR, e);
    CHK("gridDiskDistancesUnsafe");
    vf_buf_free(o);
    vf_buf_free(d);
    /* ring: 6k slots (1 for k = 0) */
    int64_t rs = k ? 6 * (int64_t)k : 1;
    H3Index *ring = vf_buf_new((size_t)rs * 8, 0);
    CALL(gridRingUnsafe), e = gridRingUnsafe(h, k, ring), bad_code(CUR, e);
    if (vf_buf_check(ring)) vf_violation("overrun", CUR, 7, "", "canary damaged (k=%d)", k);
    vf_buf_free(ring);
    /* several origins */
    if (sz * 3 <= CAP_SLOTS) {
        int n = 1 + (int)vf_below(R, 3);
        H3Index *in = vf_buf_new((size_t)n * 8, 0);
        for (int i = 0; i < n; i++) in[i] = i ? any_index() : h;
        H3Index *oo = vf_buf_new((size_t)(sz * n) * 8, 0);
        CALL(gridDisksUnsafe), e = gridDisksUnsafe(in, n, k, oo), bad_code(CUR, e);
        if (vf_buf_check(oo) || vf_buf_check(in)) vf_violation("overrun", CUR, 8, "", "canary damaged");
        vf_buf_free(in);
        vf_buf_free(oo);
    }
}
static void t_res_info(void) {
    int r = any_res();
    double *d = vf_buf_new(8, 0);
    int64_t *n = vf_buf_new(8, 0);
    H3Error want = (r < 0 || r > 15) ? E_RES_DOMAIN : E_SUCCESS, e;
    CALL(getHexagonAreaAvgKm2), e = getHexagonAreaAvgKm2(r, d), bad_code(CUR, e), expect(CUR, e, want, "res");
    CALL(getHexagonAreaAvgM2), e = getHexagonAreaAvgM2(r, d), bad_code(CUR, e), expect(CUR, e, want, "res");
    CALL(getHexagonEdgeLengthAvgKm), e = getHexagonEdgeLengthAvgKm(r, d), bad_code(CUR, e), expect(CUR, e, want, "res");
    CALL(getHexagonEdgeLengthAvgM), e = getHexagonEdgeLengthAvgM(r, d), bad_code(CUR, e), expect(CUR, e, want, "res");
    CALL(getNumCells), e = getNumCells(r, n), bad_code(CUR, e), expect(CUR, e, want, "res");
    H3Index *p = vf_buf_new(12 * 8, 0);
    CALL(getPentagons), e = getPentagons(r, p), bad_code(CUR, e), expect(CUR, e, want, "res");
    if (vf_buf_check(p)) vf_violation("overrun", CUR, 9, "", "canary damaged");
    vf_buf_free(p);
    if (vf_below(R, 50) == 0) {
        H3Index *r0 = vf_buf_new(122 * 8, 0);
        CALL(getRes0Cells), bad_code(CUR, getRes0Cells(r0));
        if (vf_buf_check(r0)) vf_violation("overrun", CUR, 10, "", "canary damaged");
        vf_buf_free(r0);
        CALL(res0CellCount), (void)res0CellCount();
        CALL(pentagonCount), (void)pentagonCount();
    }
    vf_buf_free(d);
    vf_buf_free(n);
}
static void t_strings(void) {
    H3Index h = any_index();
    size_t sz = vf_below(R, 40);
    char *s = vf_buf_new(sz, 0x33);
    CALL(h3ToString);
    H3Error e = h3ToString(h, s, sz);
    bad_code(CUR, e);
    expect(CUR, e, sz < 17 ? E_MEMORY_BOUNDS : E_SUCCESS, "buffer size");
    if (vf_buf_check(s)) vf_violation("overrun", CUR, 11, "", "canary damaged (sz=%zu)", sz);
    vf_buf_free(s);
    int len = (int)vf_below(R, 24);
    char *t = vf_buf_new((size_t)len + 1, 0);
    static const char alpha[] = "0123456789abcdefABCDEFxX+- \t\n.,gz";
    for (int i = 0; i < len; i++) t[i] = vf_below(R, 6) ? alpha[vf_below(R, sizeof alpha - 1)] : (char)(1 + vf_below(R, 255));
    t[len] = 0;
    H3Index *o = vf_buf_new(8, 0);
    CALL(stringToH3), bad_code(CUR, stringToH3(t, o));
    vf_buf_free(t);
    vf_buf_free(o);
    H3Error code = vf_below(R, 2) ? (H3Error)vf_below(R, 20) : (H3Error)vf_u64(R);
    CALL(describeH3Error);
    const char *d = describeH3Error(code);
    if (!d || strlen(d) == 0 || strlen(d) > 200) vf_violation("bad-output", CUR, 12, "", "describeH3Error(%u) returned %s", code, d ? "an implausible string" : "NULL");
}
static void t_compact(void) {
    int n, wf;
    H3Index *s = cell_set(&n, &wf);
    H3Index *out = vf_buf_new((size_t)n * 8, 0);
    CALL(compactCells);
    H3Error e = compactCells(s, out, n);
    bad_code(CUR, e);
    if (vf_buf_check(out) || vf_buf_check(s)) vf_violation("overrun", CUR, 13, "", "canary damaged (n=%d)", n);
    /* uncompact: the (possibly malformed) set itself and the compacted output */
    int res = any_res();
    int64_t *usz = vf_buf_new(8, 0);
    CALL(uncompactCellsSize);
    H3Error e2 = uncompactCellsSize(s, n, res, usz);
    bad_code(CUR, e2);
    if (wf && n > 0) {
        int finest = 0, allvalid = 1;
        for (int i = 0; i < n; i++) {
            if (!ref_is_valid_cell(s[i])) allvalid = 0;
            else if (VF_RES(s[i]) > finest) finest = VF_RES(s[i]);
        }
        if (allvalid && (res < finest || res > 15)) expect(CUR, e2, E_RES_MISMATCH, "target resolution coarser than a cell or > 15");
    }
    if (!e2 && *usz >= 0 && *usz <= CAP_SLOTS) {
        int64_t cap = vf_below(R, 4) ? *usz : (*usz > 0 ? (int64_t)vf_below(R, (uint64_t)*usz) : 0);
        H3Index *un = vf_buf_new((size_t)cap * 8, 0);
        CALL(uncompactCells);
        H3Error e3 = uncompactCells(s, n, un, cap, res);
        bad_code(CUR, e3);
        if (vf_buf_check(un)) vf_violation("overrun", CUR, 14, "", "wrote beyond capacity %" PRId64 " (needed %" PRId64 ")", cap, *usz);
        if (wf && cap < *usz) expect(CUR, e3, E_MEMORY_BOUNDS, "capacity smaller than uncompactCellsSize");
        vf_buf_free(un);
    } else if (!e2)
        n_skipped_size++;
    vf_buf_free(usz);
    vf_buf_free(s);
    vf_buf_free(out);
}
static void t_pairs(void) {
    H3Index a = any_index(), b;
    switch (vf_below(R, 6)) {
        case 0: b = any_index(); break;
        case 1: b = a; break;
        case 4:
        case 5: { /* a structural relative of a, whatever a is: the same bits with another finest digit (a "sibling", one of the two
                   * possibly the centre child), another digit somewhere, or another base cell — pairs that agree in most of their
                   * bits take the shortcuts that independent hostile values never reach */
            int res = VF_RES(a), rr = res >= 1 && res <= 15 ? res : 1 + (int)vf_below(R, 15);
            b = a;
            switch (vf_below(R, 4)) {
                case 0: a = vf_set_digit(a, rr, 0); b = vf_set_digit(b, rr, 1 + (int)vf_below(R, 6)); break;
                case 1: b = vf_set_digit(b, rr, (int)vf_below(R, 8)); break;
                case 2: b = vf_set_digit(b, 1 + (int)vf_below(R, 15), (int)vf_below(R, 8)); break;
                default: b = (b & ~((uint64_t)0x7f << 45)) | ((uint64_t)vf_below(R, 128) << 45);
            }
            break;
        }
        default: { /* something near a, when a is valid */
            H3Index d[19] = {0};
            b = (ref_is_valid_cell(a) && !gridDisk(a, 2, d)) ? d[vf_below(R, 19)] : any_index();
            if (!b) b = a;
        }
    }
    int va = ref_is_valid_cell(a), vb = ref_is_valid_cell(b);
    int mismatch = va && vb && VF_RES(a) != VF_RES(b);
    int *io = vf_buf_new(4, 0);
    int64_t *d = vf_buf_new(8, 0);
    H3Index *e1 = vf_buf_new(8, 0);
    H3Error e;
    CALL(areNeighborCells), e = areNeighborCells(a, b, io), bad_code(CUR, e);
    if (mismatch) expect(CUR, e, E_RES_MISMATCH, "valid cells of different resolutions");
    CALL(cellsToDirectedEdge), e = cellsToDirectedEdge(a, b, e1), bad_code(CUR, e);
    CALL(gridDistance), e = gridDistance(a, b, d), bad_code(CUR, e);
    if (mismatch) expect(CUR, e, E_RES_MISMATCH, "valid cells of different resolutions");
    CALL(gridPathCellsSize), e = gridPathCellsSize(a, b, d), bad_code(CUR, e);
    if (mismatch) expect(CUR, e, E_RES_MISMATCH, "valid cells of different resolutions");
    if (!e && *d >= 0 && *d <= CAP_SLOTS) {
        H3Index *p = vf_buf_new((size_t)*d * 8, 0);
        CALL(gridPathCells), bad_code(CUR, gridPathCells(a, b, p));
        if (vf_buf_check(p)) vf_violation("overrun", CUR, 15, "", "wrote beyond the announced size %" PRId64, *d);
        vf_buf_free(p);
    } else if (e) { /* undefined-size call: observed only */
        H3Index *p = vf_buf_new(8, 0);
        CALL(gridPathCells), bad_code(CUR, gridPathCells(a, b, p));
        vf_buf_free(p);
    }
    /* local ij */
    uint32_t mode = vf_below(R, 4) ? 0 : (uint32_t)vf_u64(R);
    CoordIJ *ij = vf_buf_new(sizeof(CoordIJ), 0);
    CALL(cellToLocalIj), e = cellToLocalIj(a, b, mode, ij), bad_code(CUR, e);
    if (mode) expect(CUR, e, E_OPTION_INVALID, "mode != 0");
    if (e || vf_below(R, 2)) {
        ij->i = vf_hostile_int(R);
        ij->j = vf_hostile_int(R);
    }
    CALL(localIjToCell), e = localIjToCell(a, ij, mode, e1), bad_code(CUR, e);
    if (mode) expect(CUR, e, E_OPTION_INVALID, "mode != 0");
    if (!e && va) vf_out_cell(CUR, *e1, VF_RES(a));
    vf_buf_free(ij);
    vf_buf_free(io);
    vf_buf_free(d);
    vf_buf_free(e1);
}
static void t_edges(void) {
    H3Index ed = edge_index();
    H3Index *o = vf_buf_new(8, 0), *od = vf_buf_new(16, 0), *six = vf_buf_new(48, 0);
    CellBoundary *cb = vf_buf_new(sizeof(CellBoundary), 0);
    double *d = vf_buf_new(8, 0);
    int valid = ref_is_valid_edge(ed);
    H3Error e;
    CALL(isValidDirectedEdge), (void)isValidDirectedEdge(ed);
    CALL(getDirectedEdgeOrigin), e = getDirectedEdgeOrigin(ed, o), bad_code(CUR, e);
    if (valid) expect(CUR, e, E_SUCCESS, "valid edge");
    CALL(getDirectedEdgeDestination), e = getDirectedEdgeDestination(ed, o), bad_code(CUR, e);
    if (valid) expect(CUR, e, E_SUCCESS, "valid edge");
    CALL(directedEdgeToCells), e = directedEdgeToCells(ed, od), bad_code(CUR, e);
    CALL(directedEdgeToBoundary), e = directedEdgeToBoundary(ed, cb), bad_code(CUR, e);
    if (valid) expect(CUR, e, E_SUCCESS, "valid edge");
    CALL(edgeLengthRads), bad_code(CUR, edgeLengthRads(ed, d));
    CALL(edgeLengthKm), bad_code(CUR, edgeLengthKm(ed, d));
    CALL(edgeLengthM), bad_code(CUR, edgeLengthM(ed, d));
    H3Index h = any_index();
    CALL(originToDirectedEdges), bad_code(CUR, originToDirectedEdges(h, six));
    if (vf_buf_check(six)) vf_violation("overrun", CUR, 16, "", "canary damaged");
    vf_buf_free(o);
    vf_buf_free(od);
    vf_buf_free(six);
    vf_buf_free(cb);
    vf_buf_free(d);
}
static void t_vertexes(void) {
    H3Index h = any_index(), v = vertex_index();
    int vn = vf_below(R, 3) ? (int)vf_below(R, 8) : vf_hostile_int(R);
    H3Index *o = vf_buf_new(8, 0), *six = vf_buf_new(48, 0);
    LatLng *g = vf_buf_new(sizeof(LatLng), 0);
    H3Error e;
    CALL(cellToVertex), e = cellToVertex(h, vn, o), bad_code(CUR, e);
    if (ref_is_valid_cell(h)) expect(CUR, e, (vn < 0 || vn >= (ref_is_pentagon(h) ? 5 : 6)) ? E_DOMAIN : E_SUCCESS, "valid cell, vertex number");
    CALL(cellToVertexes), bad_code(CUR, cellToVertexes(h, six));
    if (vf_buf_check(six)) vf_violation("overrun", CUR, 17, "", "canary damaged");
    CALL(vertexToLatLng), bad_code(CUR, vertexToLatLng(v, g));
    CALL(isValidVertex), (void)isValidVertex(v);
    vf_buf_free(o);
    vf_buf_free(six);
    vf_buf_free(g);
}
static void t_misc_doubles(void) {
    LatLng *a = vf_buf_new(sizeof(LatLng), 0), *b = vf_buf_new(sizeof(LatLng), 0);
    *a = any_ll();
    *b = any_ll();
    CALL(greatCircleDistanceRads), (void)greatCircleDistanceRads(a, b);
    CALL(greatCircleDistanceKm), (void)greatCircleDistanceKm(a, b);
    CALL(greatCircleDistanceM), (void)greatCircleDistanceM(a, b);
    CALL(degsToRads), (void)degsToRads(vf_hostile_double(R));
    CALL(radsToDegs), (void)radsToDegs(vf_hostile_double(R));
    vf_buf_free(a);
    vf_buf_free(b);
}
static void t_polygons(void) {
    int res = any_res();
    hpoly P;
    hpoly_gen(&P, res >= 0 && res <= 15 ? res : 5);
    /* A polygon with finite but out-of-range outer coordinates covers much of the globe in the planar reading; the
     * experimental functions then legitimately visit a large share of all cells of the resolution (7x per level).
     * Such inputs are executed at res <= 4 so the work stays affordable.  (Infinite coordinates are rejected since
     * the repair of F4 and are driven at every resolution; the F4 witness is in witness_f4.) */
    int rx = res;
    if (P.hostile_coords && rx > 4 && rx <= 15) rx = (int)vf_below(R, 5);
    /* The experimental fill visits every cell that overlaps the polygon's bounding box, whatever the output size: a
     * degenerate two-vertex "polygon" 0.3 rad long costs millions of cell tests at res 15 although it contains no
     * cell.  Slow is not a hang: lower the resolution until the bounding box (of the finite coordinates; a
     * transmeridian or non-finite longitude counts as the full circle) holds at most ~2e5 cells. */
    if (rx >= 0 && rx <= 15) {
        double la0 = 1e9, la1 = -1e9, lo0 = 1e9, lo1 = -1e9;
        int wrap = 0, nv = P.gp.geoloop.numVerts;
        for (int i = 0; i < nv; i++) {
            LatLng a = P.gp.geoloop.verts[i], b = P.gp.geoloop.verts[(i + 1) % nv];
            if (isfinite(a.lat)) {
                if (a.lat < la0) la0 = a.lat;
                if (a.lat > la1) la1 = a.lat;
            }
            if (isfinite(a.lng)) {
                if (a.lng < lo0) lo0 = a.lng;
                if (a.lng > lo1) lo1 = a.lng;
            } else
                wrap = 1;
            if (!(fabs(a.lng - b.lng) <= M_PI)) wrap = 1;
        }
        double hs = la1 > la0 ? la1 - la0 : 0, ws = wrap ? 6.3 : (lo1 > lo0 ? lo1 - lo0 : 0);
        if (hs > 3.2) hs = 3.2;
        if (ws > 6.3) ws = 6.3;
        while (rx > 0) {
            double w = 0.35 / pow(2.6457, rx);
            if ((hs / w + 2) * (ws / w + 2) <= 2e5) break;
            rx--;
        }
    }
    if (getenv("VF_DEBUG")) {
        fprintf(stderr, "polygon res=%d rx=%d hostile=%d nverts=%d nholes=%d:", res, rx, P.hostile_coords, P.gp.geoloop.numVerts, P.gp.numHoles);
        for (int i = 0; i < P.gp.geoloop.numVerts; i++) fprintf(stderr, " (%g,%g)", P.gp.geoloop.verts[i].lat, P.gp.geoloop.verts[i].lng);
        fprintf(stderr, "\n");
    }
    uint32_t flags = vf_below(R, 5) ? (uint32_t)vf_below(R, 4) : vf_below(R, 2) ? 4 + (uint32_t)vf_below(R, 50) : (uint32_t)vf_u64(R);
    int badflags = flags > 3, badres = res < 0 || res > 15;
    int64_t *sz = vf_buf_new(8, 0);
    H3Error e;
    /* legacy */
    uint32_t lflags = vf_below(R, 5) ? 0 : flags;
    CALL(maxPolygonToCellsSize), e = maxPolygonToCellsSize(&P.gp, res, lflags, sz), bad_code(CUR, e);
    int lbad = lflags > 3, wellformed = P.gp.geoloop.numVerts >= 3; /* scalars are judged only on an otherwise well-formed call */
    if ((lbad || badres) && wellformed) {
        n_judged++;
        if (!(e == E_OPTION_INVALID || e == E_RES_DOMAIN) || (!lbad && e != E_RES_DOMAIN) || (!badres && e != E_OPTION_INVALID))
            vf_violation("wrong-code", CUR, 18, "", "res=%d flags=%u: rc=%u", res, lflags, e);
    }
    /* the legacy fill probes its output array as an open-addressing hash set: its cost is not linear in the size (a 2e6-slot
     * fill was measured at 30 CPU-seconds), so it gets a tighter cap than the other functions; larger ones are counted */
    if (!e && *sz >= 0 && *sz <= CAP_SLOTS / 10) {
        H3Index *o = vf_buf_new((size_t)*sz * 8, 0);
        CALL(polygonToCells), e = polygonToCells(&P.gp, res, lflags, o), bad_code(CUR, e);
        if (vf_buf_check(o)) vf_violation("overrun", CUR, 19, "", "wrote outside maxPolygonToCellsSize=%" PRId64, *sz);
        vf_buf_free(o);
    } else if (!e)
        n_skipped_size++;
    else if ((lbad || badres) && wellformed) {
        H3Index *o = vf_buf_new(8, 0);
        CALL(polygonToCells), e = polygonToCells(&P.gp, res, lflags, o), bad_code(CUR, e);
        n_judged++;
        if (e != E_OPTION_INVALID && e != E_RES_DOMAIN) vf_violation("wrong-code", CUR, 20, "", "res=%d flags=%u: rc=%u", res, lflags, e);
        vf_buf_free(o);
    }
    /* experimental */
    int rr = badres ? res : rx;
    CALL(maxPolygonToCellsSizeExperimental), e = maxPolygonToCellsSizeExperimental(&P.gp, rr, flags, sz), bad_code(CUR, e);
    if ((badflags || badres) && wellformed) {
        n_judged++;
        if (!(e == E_OPTION_INVALID || e == E_RES_DOMAIN) || (!badflags && e != E_RES_DOMAIN) || (!badres && e != E_OPTION_INVALID))
            vf_violation("wrong-code", CUR, 21, "", "res=%d flags=%u: rc=%u", rr, flags, e);
    }
    if (!e && *sz >= 0 && *sz <= CAP_SLOTS) {
        int64_t cap = vf_below(R, 4) ? *sz : (*sz ? (int64_t)vf_below(R, (uint64_t)*sz) : 0);
        H3Index *o = vf_buf_new((size_t)cap * 8, 0);
        CALL(polygonToCellsExperimental), e = polygonToCellsExperimental(&P.gp, rr, flags, cap, o), bad_code(CUR, e);
        if (vf_buf_check(o)) vf_violation("overrun", CUR, 22, "", "wrote outside the %" PRId64 " slots given", cap);
        vf_buf_free(o);
    } else if (!e)
        n_skipped_size++;
    else if ((badflags || badres) && wellformed) {
        H3Index *o = vf_buf_new(8, 0);
        CALL(polygonToCellsExperimental), e = polygonToCellsExperimental(&P.gp, rr, flags, 1, o), bad_code(CUR, e);
        n_judged++;
        if (e != E_OPTION_INVALID && e != E_RES_DOMAIN) vf_violation("wrong-code", CUR, 23, "", "res=%d flags=%u: rc=%u", rr, flags, e);
        vf_buf_free(o);
    }
    vf_buf_free(sz);
    hpoly_free(&P);
}
static void t_multipolygon(void) {
    int n, wf;
    H3Index *s = cell_set(&n, &wf);
    LinkedGeoPolygon *out = vf_buf_new(sizeof(LinkedGeoPolygon), 0);
    CALL(cellsToLinkedMultiPolygon);
    H3Error e = cellsToLinkedMultiPolygon(s, n, out);
    bad_code(CUR, e);
    CALL(destroyLinkedMultiPolygon);
    if (!e) destroyLinkedMultiPolygon(out);
    vf_buf_free(out);
    vf_buf_free(s);
}
/* short random call sequences feeding outputs (incl. error-path leftovers) into the next call */
static void t_sequence(void) {
    H3Index cur = any_index();
    int len = 2 + (int)vf_below(R, 5);
    for (int s = 0; s < len; s++) {
        H3Index nxt = cur;
        H3Index buf[7] = {0};
        LatLng g = {0, 0};
        CoordIJ ij = {0, 0};
        switch (vf_below(R, 10)) {
            case 0: CALL(cellToParent), bad_code(CUR, cellToParent(cur, any_res(), &nxt)); break;
            case 1: CALL(cellToCenterChild), bad_code(CUR, cellToCenterChild(cur, any_res(), &nxt)); break;
            case 2: CALL(gridDisk); if (!gridDisk(cur, 1, buf)) nxt = buf[vf_below(R, 7)]; break;
            case 3: CALL(gridDiskUnsafe), bad_code(CUR, gridDiskUnsafe(cur, 1, buf)); nxt = buf[vf_below(R, 7)]; break; /* leftovers on error */
            case 4: CALL(originToDirectedEdges), bad_code(CUR, originToDirectedEdges(cur, buf)); nxt = buf[vf_below(R, 6)]; break;
            case 5: CALL(getDirectedEdgeDestination), bad_code(CUR, getDirectedEdgeDestination(cur, &nxt)); break;
            case 6: CALL(cellToVertexes), bad_code(CUR, cellToVertexes(cur, buf)); nxt = buf[vf_below(R, 6)]; break;
            case 7: CALL(cellToLatLng); if (!cellToLatLng(cur, &g)) { CALL(latLngToCell), bad_code(CUR, latLngToCell(&g, any_res(), &nxt)); } break;
            case 8: CALL(cellToLocalIj); if (!cellToLocalIj(cur, cur, 0, &ij)) { ij.i += (int)vf_below(R, 7) - 3; ij.j += (int)vf_below(R, 7) - 3; CALL(localIjToCell), bad_code(CUR, localIjToCell(cur, &ij, 0, &nxt)); } break;
            default: CALL(childPosToCell), bad_code(CUR, childPosToCell((int64_t)vf_below(R, 50), cur, any_res(), &nxt));
        }
        cur = nxt;
    }
}

/* witness of the repaired defect F4 (known_findings.json): must return at once at a fine resolution */
static void t_witness_f4(void) {
    LatLng *v = vf_buf_new(3 * sizeof(LatLng), 0);
    v[0] = (LatLng){0.5, 0.5};
    v[1] = (LatLng){INFINITY, 0.6};
    v[2] = (LatLng){-INFINITY, 0.7};
    GeoPolygon gp = {{3, v}, 0, NULL};
    int64_t sz = -7;
    H3Index *o = vf_buf_new(8, 0);
    CALL(maxPolygonToCellsSizeExperimental), bad_code(CUR, maxPolygonToCellsSizeExperimental(&gp, 14, 0, &sz));
    CALL(polygonToCellsExperimental), bad_code(CUR, polygonToCellsExperimental(&gp, 14, 2, 1, o));
    vf_buf_free(o);
    vf_buf_free(v);
}

typedef void (*tfn)(void);
static const struct {
    const char *name;
    tfn f;
    int weight;
} T[] = {{"latLngToCell", t_latLngToCell, 3}, {"cell_scalar", t_cell_scalar, 3}, {"faces", t_faces, 2}, {"parent_child", t_parent_child, 3}, {"disks", t_disks, 3},
         {"res_info", t_res_info, 1},         {"strings", t_strings, 1},         {"compact", t_compact, 2}, {"pairs", t_pairs, 3},           {"edges", t_edges, 2},
         {"vertexes", t_vertexes, 2},         {"misc_doubles", t_misc_doubles, 1}, {"polygons", t_polygons, 3}, {"multipolygon", t_multipolygon, 2}, {"sequence", t_sequence, 3}};
#define NT ((int)(sizeof T / sizeof T[0]))

static void one_case(int ti, vf_rng *r) {
    R = r;
    vf_case("call %d %016" PRIx64 " %016" PRIx64 " %016" PRIx64 " %016" PRIx64 " %s", ti, r->s[0], r->s[1], r->s[2], r->s[3], T[ti].name);
    if (VF_GUARD()) {
        T[ti].f();
    } else {
        vf_assert_report(CUR, 0);
    }
    VF_UNGUARD();
    vf_add(T[ti].name, 1);
}
/* ---- coverage-guided phase ("fuzz"): libFuzzer mutates a byte tape; byte 0 picks the table entry, the rest feeds every
 * draw of the hostile-argument generators (vf_tape_set), so the mutation engine steers the same cases as the random
 * phases towards library branches they have not reached.  Oracles, guards and watchdog are the same. */
static uint64_t tape_hash(const uint8_t *d, size_t n) {
    uint64_t h = 1469598103934665603ULL;
    for (size_t i = 0; i < n; i++) h = (h ^ d[i]) * 1099511628211ULL;
    return vf_mix(h + n);
}
static void tape_case(int ti, const uint8_t *d, size_t n) { /* d: the tape proper (n bytes) */
    static char spec[4000];
    int o;
    if (n > 1800) n = 1800;
    o = snprintf(spec, sizeof spec, "tape %d ", ti);
    for (size_t i = 0; i < n; i++) o += snprintf(spec + o, sizeof spec - (size_t)o, "%02x", d[i]);
    if (n == 0) snprintf(spec + o, sizeof spec - (size_t)o, "-");
    vf_rng r;
    vf_rng_seed(&r, tape_hash(d, n) + (uint64_t)ti);
    R = &r;
    vf_case("%s %s", spec, T[ti].name);
    vf_tape_set(d, n);
    if (VF_GUARD()) {
        T[ti].f();
    } else {
        vf_assert_report(CUR, 0);
    }
    VF_UNGUARD();
    vf_tape_set(NULL, 0);
    vf_add(T[ti].name, 1);
}
#ifdef VF_FUZZ
#include <dirent.h>
#include <sys/stat.h>
extern int LLVMFuzzerRunDriver(int *argc, char ***argv, int (*cb)(const uint8_t *, size_t));
static int64_t fuzz_execs;
static char fuzz_corpus[4096];
static int fuzz_cb(const uint8_t *d, size_t n) {
    if (n < 1) return 0;
    tape_case(d[0] % NT, d + 1, n - 1);
    fuzz_execs++;
    if ((fuzz_execs & 15) == 0) vf_distinct(tape_hash(d, n));
    return 0;
}
static void fuzz_done(void) {
    int64_t units = 0, bytes = 0;
    DIR *dd = opendir(fuzz_corpus);
    if (dd) {
        struct dirent *e;
        while ((e = readdir(dd))) {
            char fp[4400];
            struct stat st;
            snprintf(fp, sizeof fp, "%s/%s", fuzz_corpus, e->d_name);
            if (e->d_name[0] != '.' && stat(fp, &st) == 0 && S_ISREG(st.st_mode)) units++, bytes += st.st_size;
        }
        closedir(dd);
    }
    vf_add("fuzz.execs", fuzz_execs);
    vf_add("fuzz.corpus_units_kept", units);
    vf_add("fuzz.corpus_bytes", bytes);
    vf_add("cases", fuzz_execs);
    vf_add("api_calls", n_calls);
    vf_add("documented_code_judgements", n_judged);
    vf_add("skipped.size_over_cap", n_skipped_size);
    vf_sample("coverage-guided: %" PRId64 " executions, %" PRId64 " API calls, corpus of %" PRId64 " units that each reached new library coverage", fuzz_execs, n_calls, units);
    vf_finish();
}
static void run_fuzz(void) {
    vf_rng r;
    vf_rng_stream(&r, 1212);
    snprintf(fuzz_corpus, sizeof fuzz_corpus, "corpus-fuzz-%d", VF.shard);
    mkdir(fuzz_corpus, 0755);
    /* starting corpus: a few random tapes per table entry from this shard's stream */
    for (int ti = 0; ti < NT; ti++)
        for (int k = 0; k < 4; k++) {
            char fp[4400];
            uint8_t buf[400];
            int len = 40 + (int)vf_below(&r, 360);
            buf[0] = (uint8_t)ti;
            for (int i = 1; i < len; i++) buf[i] = (uint8_t)vf_u64(&r);
            snprintf(fp, sizeof fp, "%s/seed-%02d-%d", fuzz_corpus, ti, k);
            FILE *f = fopen(fp, "wb");
            if (!f) vf_fatal("cannot write %s", fp);
            fwrite(buf, 1, (size_t)len, f);
            fclose(f);
        }
    char a_runs[64], a_seed[64];
    int64_t runs = getenv("VF_FUZZ_RUNS") ? atoll(getenv("VF_FUZZ_RUNS")) : VF_T(5000, 50000);
    snprintf(a_runs, sizeof a_runs, "-runs=%" PRId64, runs);
    snprintf(a_seed, sizeof a_seed, "-seed=%u", (unsigned)(vf_u64(&r) % 4000000000u) + 1u);
    /* no wall-clock unit timeout (the kit's CPU-time watchdog judges totality), no allocation/RSS limits (a refused huge
     * allocation is the library's business: E_MEMORY_ALLOC), no leak pass (C17's subject) */
    char *argv_[] = {"mon", a_runs, a_seed, "-max_len=1600", "-len_control=0", "-timeout=0", "-rss_limit_mb=0", "-malloc_limit_mb=0",
                     "-detect_leaks=0", "-print_final_stats=1", "-reload=0", "-use_value_profile=1", fuzz_corpus, NULL};
    int argc_ = (int)(sizeof argv_ / sizeof argv_[0]) - 1;
    char **av = argv_;
    atexit(fuzz_done);
    LLVMFuzzerRunDriver(&argc_, &av, fuzz_cb); /* ends the process through exit(): fuzz_done writes the closing events */
    fuzz_done();
}
#endif
static void run(void) {
    vf_rng r;
    vf_rng_stream(&r, 12);
    /* totality: a call that burns 120 (thorough and memcheck: 240) CPU-seconds has not returned — CPU time, not wall-clock */
    vf_watchdog_fn(&CUR);
    vf_watchdog(10, VF.thorough || !strcmp(VF.phase, "memcheck") ? 24 : 12);
#ifdef VF_FUZZ
    if (!strcmp(VF.phase, "fuzz")) {
        run_fuzz();
        return;
    }
#endif
    if (VF.shard == 0) {
        R = &r;
        vf_case("witness-f4");
            if (VF_GUARD()) t_witness_f4();
        else vf_assert_report(CUR, 0);
        VF_UNGUARD();
            vf_add("witness.F4_cases", 1);
    }
    int64_t n = VF_T(45000, 1500000);
    if (!strcmp(VF.phase, "ndebug")) n = VF_T(15000, 400000);
    if (!strcmp(VF.phase, "memcheck")) n = 2500;
    int tot = 0;
    for (int i = 0; i < NT; i++) tot += T[i].weight;
    for (int64_t it = 0; it < n; it++) {
        int pick = (int)(it % tot), ti = 0;
        while (pick >= T[ti].weight) pick -= T[ti++].weight;
        one_case(ti, &r);
        if ((it & 15) == 0) vf_distinct(vf_mix(r.s[0] ^ (uint64_t)ti));
    }
    vf_add("api_calls", n_calls);
    vf_add("cases", n);
    vf_add("documented_code_judgements", n_judged);
    vf_add("skipped.size_over_cap", n_skipped_size);
    vf_sample("%" PRId64 " hostile cases, %" PRId64 " API calls, %" PRId64 " documented-code judgements in this worker (phase %s)", n, n_calls, n_judged, VF.phase);
}
static void replay(const char *spec) {
    int ti;
    vf_rng r;
    /* totality: a call that burns 120 (thorough and memcheck: 240) CPU-seconds has not returned — CPU time, not wall-clock */
    vf_watchdog_fn(&CUR);
    vf_watchdog(10, VF.thorough || !strcmp(VF.phase, "memcheck") ? 24 : 12);
    if (sscanf(spec, "call %d %" SCNx64 " %" SCNx64 " %" SCNx64 " %" SCNx64, &ti, &r.s[0], &r.s[1], &r.s[2], &r.s[3]) == 5 && ti >= 0 && ti < NT) {
        one_case(ti, &r);
        vf_add("cases", 1);
        vf_add("api_calls", n_calls);
    } else if (!strncmp(spec, "tape ", 5)) {
        static uint8_t d[2000];
        size_t n = 0;
        int ti2 = 0, off = 0;
        unsigned x;
        if (sscanf(spec, "tape %d %n", &ti2, &off) < 1 || ti2 < 0 || ti2 >= NT) vf_fatal("bad tape spec");
        for (const char *q = spec + off; n < sizeof d && q[0] != '-' && q[0] != ' ' && q[0] && sscanf(q, "%2x", &x) == 1; q += 2) d[n++] = (uint8_t)x;
        tape_case(ti2, d, n);
        vf_add("cases", 1);
        vf_add("api_calls", n_calls);
    } else if (!strncmp(spec, "witness-f4", 10)) {
        vf_rng_seed(&r, 1);
        R = &r;
        t_witness_f4();
        } else
        vf_fatal("bad replay spec: %s", spec);
}
int main(int argc, char **argv) { return vf_main(argc, argv, "C12", run, replay); }
