/* mon_C17 — allocation failure is reported cleanly and nothing leaks
 * (DESIGN.md §5 C17).  Level: fault enumeration.
 *
 * The library is built with -DH3_ALLOC_PREFIX=vfa_, so every allocation goes
 * through the ledger in vf_kit.c (live set, double/foreign free detection,
 * programmable failure).  Each call runs once unfaulted (allocation count N,
 * outputs hashed and compared with the same call on a second copy of the
 * library that uses the default allocator, loaded with dlopen), then N times
 * failing exactly the i-th allocation and N times failing the i-th and all
 * later ones.
 */
#include "vf.h"

#include <dlfcn.h>
#include "vf_poly.h"

#ifndef VF_ALLOC
#error "mon_C17 needs the allocator ledger (config asan-alloc)"
#endif

enum { K_COMPACT, K_DISK, K_DISKDIST, K_NEIGH, K_POLY, K_POLYX, K_MAXX, K_NKINDS };
static const char *KNAME[] = {"compactCells", "gridDisk", "gridDiskDistances", "areNeighborCells", "polygonToCells", "polygonToCellsExperimental", "maxPolygonToCellsSizeExperimental"};

typedef struct {
    H3Error (*compactCells)(const H3Index *, H3Index *, const int64_t);
    H3Error (*gridDisk)(H3Index, int, H3Index *);
    H3Error (*gridDiskDistances)(H3Index, int, H3Index *, int *);
    H3Error (*areNeighborCells)(H3Index, H3Index, int *);
    H3Error (*polygonToCells)(const GeoPolygon *, int, uint32_t, H3Index *);
    H3Error (*polygonToCellsExperimental)(const GeoPolygon *, int, uint32_t, int64_t, H3Index *);
    H3Error (*maxPolygonToCellsSizeExperimental)(const GeoPolygon *, int, uint32_t, int64_t *);
} api_t;
static api_t LIB = {compactCells, gridDisk, gridDiskDistances, areNeighborCells, polygonToCells, polygonToCellsExperimental, maxPolygonToCellsSizeExperimental};
static api_t REF;

typedef struct {
    int kind;
    const H3Index *cells;
    int64_t n;       /* compact: count; disk: k; polyx: capacity */
    H3Index a, b;
    const GeoPolygon *gp;
    int res;
    uint32_t flags;
    int64_t outslots; /* output slots for polygon fills */
} call_t;
typedef struct {
    H3Error rc;
    uint64_t hash;
    int64_t count;
} res_t;

static uint64_t hash_buf(const void *p, size_t n) {
    const unsigned char *b = p;
    uint64_t h = 1469598103934665603ULL;
    for (size_t i = 0; i < n; i++) h = (h ^ b[i]) * 1099511628211ULL;
    return h;
}
static int cmp_u64(const void *a, const void *b) {
    uint64_t x = *(const uint64_t *)a, y = *(const uint64_t *)b;
    return x < y ? -1 : x > y;
}
static res_t invoke(const api_t *A, const call_t *c) {
    res_t r = {99, 0, 0};
    switch (c->kind) {
        case K_COMPACT: {
            H3Index *out = vf_buf_new((size_t)c->n * 8, 0);
            r.rc = A->compactCells(c->cells, out, c->n);
            if (!r.rc) {
                qsort(out, (size_t)c->n, 8, cmp_u64); /* slot order is not part of the contract */
                r.hash = hash_buf(out, (size_t)c->n * 8);
            }
            vf_buf_free(out);
            break;
        }
        case K_DISK:
        case K_DISKDIST: {
            int k = (int)c->n;
            int64_t sz = 3 * (int64_t)k * (k + 1) + 1;
            H3Index *out = vf_buf_new((size_t)sz * 8, 0);
            int *d = vf_buf_new((size_t)sz * 4, 0);
            r.rc = c->kind == K_DISK ? A->gridDisk(c->a, k, out) : A->gridDiskDistances(c->a, k, out, d);
            if (!r.rc) r.hash = hash_buf(out, (size_t)sz * 8) ^ (c->kind == K_DISKDIST ? hash_buf(d, (size_t)sz * 4) * 3 : 0);
            vf_buf_free(out);
            vf_buf_free(d);
            break;
        }
        case K_NEIGH: {
            int out = -5;
            r.rc = A->areNeighborCells(c->a, c->b, &out);
            r.hash = (uint64_t)(int64_t)out;
            r.count = out;
            break;
        }
        case K_POLY:
        case K_POLYX: {
            H3Index *out = vf_buf_new((size_t)c->outslots * 8, 0);
            r.rc = c->kind == K_POLY ? A->polygonToCells(c->gp, c->res, c->flags, out) : A->polygonToCellsExperimental(c->gp, c->res, c->flags, c->n, out);
            if (!r.rc) {
                for (int64_t i = 0; i < c->outslots; i++)
                    if (out[i]) r.count++;
                qsort(out, (size_t)c->outslots, 8, cmp_u64);
                r.hash = hash_buf(out, (size_t)c->outslots * 8);
            }
            if (vf_buf_check(out)) r.rc = 98;
            vf_buf_free(out);
            break;
        }
        case K_MAXX: {
            int64_t out = -5;
            r.rc = A->maxPolygonToCellsSizeExperimental(c->gp, c->res, c->flags, &out);
            r.hash = (uint64_t)out;
            r.count = out;
            break;
        }
    }
    return r;
}

static int64_t n_calls, n_faulted, n_trivial;
static const char *cur_sig = "";

static void fault_case(const call_t *c, const char *what) {
    const char *fn = KNAME[c->kind];
    uint64_t key = vf_mix(hash_buf(vf_case_get(), strlen(vf_case_get())));
    if (!VF_GUARD()) {
        vf_assert_report(fn, key);
        VF_UNGUARD();
        return;
    }
    /* 1. unfaulted */
    vfa_reset();
    res_t r0 = invoke(&LIB, c);
    long N = VFA.allocs;
    n_calls++;
    if (VFA.live != 0)
        vf_violation("leak", fn, key, cur_sig, "%s: %ld block(s) still allocated after an unfaulted call (rc=%u, %ld allocations)", what, VFA.live, r0.rc, N);
    if (VFA.double_free) vf_violation("double-free", fn, key, cur_sig, "%s: %ld free(s) of a block that is not live (unfaulted, rc=%u)", what, VFA.double_free, r0.rc);
    if (r0.rc == 98) vf_violation("overrun", fn, key, cur_sig, "%s: canary damaged", what);
    /* 2. same call on the default-allocator copy */
    res_t rr = invoke(&REF, c);
    if (rr.rc != r0.rc || rr.hash != r0.hash)
        vf_violation("differs-from-default", fn, key, cur_sig, "%s: custom allocator rc=%u hash=%016" PRIx64 ", default allocator rc=%u hash=%016" PRIx64, what, r0.rc, r0.hash, rr.rc, rr.hash);
    char nm[64];
    snprintf(nm, sizeof nm, "calls.%s", fn);
    vf_add(nm, 1);
    if (r0.rc) {
        snprintf(nm, sizeof nm, "errorpath.%s", fn);
        vf_add(nm, 1);
    }
    if (N == 0) {
        n_trivial++;
        VF_UNGUARD();
        return;
    }
    snprintf(nm, sizeof nm, "allocs_max.%s", fn);
    vf_maxd(nm, (double)N);
    /* 3. every allocation index, alone and with all later ones */
    long cap = N > 400 ? 400 : N;
    for (int after = 0; after <= 1; after++)
        for (long i = 1; i <= cap; i++) {
            vfa_reset();
            VFA.fail_at = i;
            VFA.fail_after = after;
            res_t r = invoke(&LIB, c);
            long failed = VFA.failed, live = VFA.live, df = VFA.double_free;
            VFA.fail_at = 0;
            if (!failed) continue; /* the path did not reach allocation i this time */
            n_faulted++;
            uint64_t k2 = key ^ vf_mix((uint64_t)i * 2 + (uint64_t)after);
            if (r.rc != E_MEMORY_ALLOC)
                vf_violation("swallowed", fn, k2, cur_sig, "%s: allocation %ld of %ld failed%s but the call returned %u (count %" PRId64 ") instead of E_MEMORY_ALLOC(13)", what, i, N,
                             after ? " (and all later ones)" : "", r.rc, r.count);
            if (live != 0) vf_violation("leak", fn, k2, cur_sig, "%s: allocation %ld of %ld failed%s: %ld block(s) not freed on return (rc=%u)", what, i, N, after ? " (and later)" : "", live, r.rc);
            if (df) vf_violation("double-free", fn, k2, cur_sig, "%s: allocation %ld of %ld failed: %ld double/foreign free(s)", what, i, N, df);
            vf_distinct(k2);
        }
    vfa_reset();
    VF_UNGUARD();
    vf_sample("%s %s: rc=%u, %ld allocations, each failed in turn -> E_MEMORY_ALLOC, ledger empty", fn, what, r0.rc, N);
}

/* ---- inputs */
static void compaction_cases(vf_rng *r, uint64_t seed) {
    vf_rng cr;
    vf_rng_seed(&cr, seed);
    (void)r;
    int res = 2 + (int)vf_below(&cr, 13);
    int depth = 1 + (int)vf_below(&cr, 5);
    if (depth > res) depth = res;
    H3Index root = vf_below(&cr, 3) ? vf_rand_cell(&cr, res - depth) : vf_make_cell(res - depth, REF_PENT_BC[vf_below(&cr, 12)], (int[15]){0});
    int64_t n = ref_children_count(root, res), extra = (int64_t)vf_below(&cr, 9);
    H3Index *cells = vf_buf_new((size_t)(n + extra + 1) * 8, 0);
    ref_child_iter it;
    int64_t m = 0;
    for (ref_child_iter_init(&it, root, res); !it.done; ref_child_iter_next(&it)) cells[m++] = it.h;
    for (int64_t i = 0; i < extra; i++) {
        H3Index x = vf_rand_cell(&cr, res);
        if (ref_parent(x, res - depth) != root) cells[m++] = x;
    }
    for (int64_t i = m - 1; i > 0; i--) {
        int64_t j = (int64_t)vf_below(&cr, (uint64_t)i + 1);
        H3Index t = cells[i];
        cells[i] = cells[j];
        cells[j] = t;
    }
    char what[160];
    call_t c = {K_COMPACT, cells, m, 0, 0, NULL, res, 0, 0};
    vf_case("compact %016" PRIx64 " 0", seed);
    snprintf(what, sizeof what, "%" PRId64 " cells: sub-tree of depth %d under %016" PRIx64 " + %" PRId64 " others", m, depth, root, extra);
    fault_case(&c, what);
    /* error paths: duplicate, reserved bits */
    int mode = (int)vf_below(&cr, 7);
    if (mode >= 3 && m >= 1) {
        /* malformed members: the error is found in the middle of a round, after the scratch arrays exist */
        int64_t q = (int64_t)vf_below(&cr, (uint64_t)m);
        const char *w = "";
        switch (mode) {
            case 3: cells[q] = vf_set_digit(cells[q], 1 + (int)vf_below(&cr, (uint64_t)res), 7); w = "one with digit 7 inside its resolution"; break;
            case 4: cells[q] = ref_parent(cells[q], res - 1 - (int)vf_below(&cr, (uint64_t)res)); w = "one replaced by an ancestor (mixed resolutions)"; break;
            case 5: cells[q] = vf_hostile_index(&cr); w = "one replaced by a hostile index"; break;
            default: cells[q] = 0; w = "one replaced by H3_NULL"; break;
        }
        vf_case("compact %016" PRIx64 " %d", seed, mode);
        snprintf(what, sizeof what, "%" PRId64 " cells, %s", m, w);
        fault_case(&c, what);
    } else if (mode == 1 && m >= 1) {
        cells[m] = cells[vf_below(&cr, (uint64_t)m)];
        c.n = m + 1;
        vf_case("compact %016" PRIx64 " 1", seed);
        snprintf(what, sizeof what, "%" PRId64 " cells with one duplicate", m + 1);
        fault_case(&c, what);
    } else if (mode == 2 && m >= 1) {
        int64_t q = (int64_t)vf_below(&cr, (uint64_t)m);
        cells[q] = vf_set_rsv(cells[q], 1 + (int)vf_below(&cr, 7));
        vf_case("compact %016" PRIx64 " 2", seed);
        snprintf(what, sizeof what, "%" PRId64 " cells, one with reserved bits set", m);
        fault_case(&c, what);
    }
    vf_buf_free(cells);
}
/* sets that compact through several rounds, down to resolution 0: whole resolutions, six or seven complete base cells (a
 * pentagon among them), and disks expanded by one or two levels (complete sibling groups at more than one level, with
 * partial ones around them).  The last rounds of compactCells allocate and free scratch like the first, but run on few cells. */
static void compaction_big(int kind, uint64_t seed) {
    vf_rng cr;
    vf_rng_seed(&cr, seed);
    int zero[15] = {0};
    int64_t cap = 60000, m = 0;
    H3Index *cells = vf_buf_new((size_t)cap * 8, 0);
    ref_child_iter it;
    char what[160];
    int res = 1;
    if (kind <= 3) {
        res = kind == 0 || kind == 1 ? 1 : 2;
        int first = kind == 1 ? (int)vf_below(&cr, 116) : kind == 2 ? (int)vf_below(&cr, 115) : 0, nbc = kind == 1 ? 6 : kind == 2 ? 7 : 122;
        if (kind == 1 || kind == 2) first = first < 4 ? first : REF_PENT_BC[vf_below(&cr, 11)] - (int)vf_below(&cr, (uint64_t)nbc); /* a pentagon base cell among them */
        if (first < 0) first = 0;
        if (first + nbc > 122) first = 122 - nbc;
        for (int bc = first; bc < first + nbc; bc++)
            for (ref_child_iter_init(&it, vf_make_cell(0, bc, zero), res); !it.done && m < cap; ref_child_iter_next(&it)) cells[m++] = it.h;
        snprintf(what, sizeof what, "%" PRId64 " cells: all res-%d descendants of base cells %d..%d", m, res, first, first + nbc - 1);
    } else {
        int k = kind == 4 ? 8 : 6, up = kind == 4 ? 1 : 2;
        res = up + 3 + (int)vf_below(&cr, 9);
        H3Index o = vf_below(&cr, 4) ? vf_rand_cell(&cr, res - up) : vf_make_cell(res - up, REF_PENT_BC[vf_below(&cr, 12)], zero);
        int64_t sz;
        maxGridDiskSize(k, &sz);
        H3Index *d = calloc((size_t)sz, 8);
        if (!gridDisk(o, k, d))
            for (int64_t i = 0; i < sz; i++)
                if (d[i])
                    for (ref_child_iter_init(&it, d[i], res); !it.done && m < cap; ref_child_iter_next(&it)) cells[m++] = it.h;
        free(d);
        snprintf(what, sizeof what, "%" PRId64 " cells: the res-%d descendants of gridDisk(%016" PRIx64 ", %d)", m, res, o, k);
    }
    for (int64_t i = m - 1; i > 0; i--) {
        int64_t j = (int64_t)vf_below(&cr, (uint64_t)i + 1);
        H3Index t = cells[i];
        cells[i] = cells[j];
        cells[j] = t;
    }
    call_t c = {K_COMPACT, cells, m, 0, 0, NULL, res, 0, 0};
    vf_case("compactbig %d %016" PRIx64, kind, seed);
    if (m > 0) fault_case(&c, what);
    vf_add("compaction.multi_round_sets", 1);
    vf_buf_free(cells);
}
static void disk_cases(H3Index o, int k) {
    char what[96];
    call_t c = {K_DISK, NULL, k, o, 0, NULL, 0, 0, 0};
    vf_case("disk %016" PRIx64 " %d", o, k);
    snprintf(what, sizeof what, "origin %016" PRIx64 " k=%d", o, k);
    fault_case(&c, what);
    c.kind = K_DISKDIST;
    vf_case("diskdist %016" PRIx64 " %d", o, k);
    fault_case(&c, what);
}
static void neigh_case(H3Index a, H3Index b) {
    char what[96];
    call_t c = {K_NEIGH, NULL, 0, a, b, NULL, 0, 0, 0};
    vf_case("neigh %016" PRIx64 " %016" PRIx64, a, b);
    snprintf(what, sizeof what, "pair %016" PRIx64 " %016" PRIx64, a, b);
    fault_case(&c, what);
}
static void poly_cases(uint64_t seed) {
    vf_rng cr;
    vf_rng_seed(&cr, seed);
    int res = (int)vf_below(&cr, 13);
    vf_poly_opts o = {0};
    H3Index centre = vf_below(&cr, 2) ? vf_make_cell(res, REF_PENT_BC[vf_below(&cr, 12)], (int[15]){0}) : vf_rand_cell(&cr, res);
    LatLng cg;
    vf_cell cc;
    if (cellToLatLng(centre, &cg) || vf_cell_load(centre, &cc)) return;
    if (fabs(cg.lat) > 1.2) return;
    o.lat0 = cg.lat + (vf_unit(&cr) - 0.5) * (double)cc.width;
    o.lng0 = cg.lng + (vf_unit(&cr) - 0.5) * (double)cc.width;
    o.radius = (double)cc.width * (0.3 + 5 * vf_unit(&cr));
    if (o.radius > 0.6) o.radius = 0.6;
    o.rmin = 0.4 + 0.5 * vf_unit(&cr);
    o.aspect = vf_below(&cr, 4) ? 1.0 : 0.05;
    o.needle_rot = vf_unit(&cr) * M_PI;
    o.nverts = 3 + (int)vf_below(&cr, 12);
    o.nholes = (int)vf_below(&cr, 4);
    o.holes_cw = (int)vf_below(&cr, 2);
    o.hole_scale = 1;
    vf_poly P;
    if (!vf_poly_gen(&cr, &o, &P)) {
        vf_poly_free(&P);
        return;
    }
    char what[160];
    int variant = (int)vf_below(&cr, 8);
    uint32_t flags = variant == 0 ? 4 + (uint32_t)vf_below(&cr, 100) : 0; /* variant 0: bad flags (error path) */
    /* legacy */
    int64_t sz = 0;
    if (!maxPolygonToCellsSize(&P.gp, res, 0, &sz) && sz > 0 && sz < 200000) {
        call_t c = {K_POLY, NULL, 0, 0, 0, &P.gp, res, flags, sz};
        vf_case("poly %016" PRIx64 " legacy", seed);
        snprintf(what, sizeof what, "res %d, %d vertices, %d holes, around %016" PRIx64 ", flags %u", res, P.n, P.nholes, centre, flags);
        cur_sig = "";
        fault_case(&c, what);
    }
    /* experimental: size function and fill, all four modes (or bad flags) */
    for (uint32_t mode = 0; mode < 4; mode++) {
        uint32_t fl = variant == 0 ? flags : mode;
        call_t cm = {K_MAXX, NULL, 0, 0, 0, &P.gp, res, fl, 0};
        vf_case("poly %016" PRIx64 " maxx%u", seed, mode);
        snprintf(what, sizeof what, "res %d, %d vertices, %d holes, flags %u", res, P.n, P.nholes, fl);
        fault_case(&cm, what);
        int64_t xs = 0;
        vfa_reset();
        if (maxPolygonToCellsSizeExperimental(&P.gp, res, mode, &xs) || xs <= 0 || xs > 200000) continue;
        call_t cx = {K_POLYX, NULL, xs, 0, 0, &P.gp, res, fl, xs};
        if (variant == 1) cx.n = cx.outslots = xs > 8 ? 1 : 0; /* too-small capacity: E_MEMORY_BOUNDS path (when the fill has more cells) */
        vf_case("poly %016" PRIx64 " fill%u", seed, mode);
        fault_case(&cx, what);
        if (variant == 0) break;
    }
    vf_poly_free(&P);
}

/* malformed indexes into the disk family and the neighbour predicate (no allocation has to fail: the ledger must be empty and
 * the result must equal the default-allocator library's on every error return) */
static void hostile_cases(uint64_t seed) {
    vf_rng cr;
    vf_rng_seed(&cr, seed);
    H3Index bad = vf_hostile_index(&cr);
    int res = ref_is_valid_cell(bad) ? VF_RES(bad) : (int)((bad >> 52) & 15);
    H3Index good = vf_rand_cell(&cr, res);
    int k = (int)vf_below(&cr, 7) - 2; /* -2..4 */
    char what[128];
    cur_sig = "";
    {
        call_t c = {K_DISK, NULL, k, bad, 0, NULL, 0, 0, 0};
        vf_case("hostile %016" PRIx64, seed);
        snprintf(what, sizeof what, "hostile origin %016" PRIx64 " k=%d (gridDisk)", bad, k);
        fault_case(&c, what);
        c.kind = K_DISKDIST;
        snprintf(what, sizeof what, "hostile origin %016" PRIx64 " k=%d (gridDiskDistances)", bad, k);
        fault_case(&c, what);
    }
    H3Index pairs[4][2] = {{bad, good}, {good, bad}, {bad, bad}, {bad, vf_hostile_index(&cr)}};
    for (int i = 0; i < 4; i++) {
        call_t c = {K_NEIGH, NULL, 0, pairs[i][0], pairs[i][1], NULL, 0, 0, 0};
        snprintf(what, sizeof what, "hostile pair %016" PRIx64 " %016" PRIx64, pairs[i][0], pairs[i][1]);
        fault_case(&c, what);
    }
    /* a valid origin beside a pentagon with a malformed *neighbourhood* cannot exist; but a valid cell of another resolution can */
    if (res > 0) {
        call_t c = {K_NEIGH, NULL, 0, good, ref_parent(good, res - 1), NULL, 0, 0, 0};
        snprintf(what, sizeof what, "cell and its parent %016" PRIx64, good);
        fault_case(&c, what);
    }
    vf_add("hostile.cases", 1);
}
/* polygons that make the fills fail: resolution out of range, non-finite or huge vertices, degenerate loops and holes */
static void bad_poly_cases(uint64_t seed) {
    vf_rng cr;
    vf_rng_seed(&cr, seed);
    int res = (int)vf_below(&cr, 8);
    H3Index centre = vf_rand_cell(&cr, res);
    LatLng cg;
    vf_cell cc;
    if (cellToLatLng(centre, &cg) || vf_cell_load(centre, &cc)) return;
    if (fabs(cg.lat) > 1.2) return;
    double w = (double)cc.width * (1 + 3 * vf_unit(&cr));
    LatLng v[6], hv[4];
    int nv = 3 + (int)vf_below(&cr, 3);
    for (int i = 0; i < nv; i++) {
        double a = 2 * M_PI * i / nv;
        v[i].lat = cg.lat + w * sin(a);
        v[i].lng = cg.lng + w * cos(a);
    }
    for (int i = 0; i < 4; i++) {
        double a = -2 * M_PI * i / 4;
        hv[i].lat = cg.lat + 0.3 * w * sin(a);
        hv[i].lng = cg.lng + 0.3 * w * cos(a);
    }
    GeoLoop hole = {4, hv};
    GeoPolygon gp = {{nv, v}, (int)vf_below(&cr, 2), &hole};
    int variant = (int)vf_below(&cr, 8);
    int useres = res;
    const char *vn = "";
    switch (variant) {
        case 0: useres = vf_below(&cr, 2) ? -1 - (int)vf_below(&cr, 3) : 16 + (int)vf_below(&cr, 3); vn = "resolution out of range"; break;
        case 1: v[vf_below(&cr, (uint64_t)nv)].lat = NAN; vn = "NaN latitude"; break;
        case 2: v[vf_below(&cr, (uint64_t)nv)].lng = vf_below(&cr, 2) ? INFINITY : -INFINITY; vn = "infinite longitude"; break;
        case 3: gp.numHoles = 1; hv[vf_below(&cr, 4)].lat = vf_below(&cr, 2) ? NAN : INFINITY; vn = "non-finite hole vertex"; break;
        case 4: gp.geoloop.numVerts = (int)vf_below(&cr, 3); vn = "outer loop of 0-2 vertices"; break;
        case 5: gp.numHoles = 1; hole.numVerts = (int)vf_below(&cr, 3); vn = "hole of 0-2 vertices"; break;
        case 6: v[vf_below(&cr, (uint64_t)nv)].lng = 1e300; vn = "huge longitude"; break;
        default: for (int i = 1; i < nv; i++) v[i] = v[0]; vn = "all vertices equal"; break;
    }
    char what[160];
    cur_sig = "";
    int64_t sz = 0;
    vfa_reset();
    H3Error se = maxPolygonToCellsSize(&gp, useres, 0, &sz);
    /* the legacy fill has no capacity argument: it is only called with the exact size its own size function announces */
    int judged_fill = !se && sz > 0 && sz <= 200000;
    if (judged_fill) {
        call_t c = {K_POLY, NULL, 0, 0, 0, &gp, useres, 0, sz};
        vf_case("badpoly %016" PRIx64, seed);
        snprintf(what, sizeof what, "legacy fill, %s, res %d", vn, useres);
        fault_case(&c, what);
    } else if (se) {
        /* the size function refuses these arguments; the fill runs the same estimate first and must refuse them too, before
         * it writes anything (one guarded slot) — and must release what it had allocated by then */
        call_t c = {K_POLY, NULL, 0, 0, 0, &gp, useres, 0, 1};
        vf_case("badpoly %016" PRIx64, seed);
        snprintf(what, sizeof what, "legacy fill although maxPolygonToCellsSize refuses (rc=%u), %s, res %d", se, vn, useres);
        fault_case(&c, what);
        vf_add("badpoly.fill_after_refused_size", 1);
    }
    for (uint32_t mode = 0; mode < 4; mode++) {
        call_t cm = {K_MAXX, NULL, 0, 0, 0, &gp, useres, mode, 0};
        vf_case("badpoly %016" PRIx64, seed);
        snprintf(what, sizeof what, "maxPolygonToCellsSizeExperimental, %s, res %d, mode %u", vn, useres, mode);
        fault_case(&cm, what);
        int64_t xs = 0;
        vfa_reset();
        H3Error xe = maxPolygonToCellsSizeExperimental(&gp, useres, mode, &xs);
        if (xe || xs <= 0 || xs > 200000) xs = 1;
        call_t cx = {K_POLYX, NULL, xs, 0, 0, &gp, useres, mode, xs};
        snprintf(what, sizeof what, "polygonToCellsExperimental, %s, res %d, mode %u", vn, useres, mode);
        fault_case(&cx, what);
    }
    vf_add("badpoly.cases", 1);
}

/* F1b witness: a square around the first res-2 pentagon, legacy polygonToCells (nested gridDisk allocations) */
static void witness_f1b(void) {
    H3Index pent = vf_make_cell(2, REF_PENT_BC[0], (int[15]){0});
    LatLng c;
    if (cellToLatLng(pent, &c)) return;
    double d = 0.05;
    LatLng v[4] = {{c.lat - d, c.lng - d}, {c.lat - d, c.lng + d}, {c.lat + d, c.lng + d}, {c.lat + d, c.lng - d}};
    GeoPolygon gp = {{4, v}, 0, NULL};
    int64_t sz = 0;
    if (maxPolygonToCellsSize(&gp, 2, 0, &sz) || sz <= 0) return;
    call_t cl = {K_POLY, NULL, 0, 0, 0, &gp, 2, 0, sz};
    vf_case("witness-f1b");
    fault_case(&cl, "square of 0.1 rad around the res-2 pentagon 0820800fffffffff... (legacy fill, nested gridDisk)");
}

static void load_ref(void) {
    if (!VF.aux) vf_fatal("mon_C17 needs --aux <default-allocator library>");
    void *h = dlopen(VF.aux, RTLD_NOW | RTLD_LOCAL);
    if (!h) vf_fatal("dlopen %s: %s", VF.aux, dlerror());
#define SYM(f) \
    do { \
        *(void **)&REF.f = dlsym(h, #f); \
        if (!REF.f || (void *)REF.f == (void *)LIB.f) vf_fatal("aux symbol %s missing or not distinct", #f); \
    } while (0)
    SYM(compactCells);
    SYM(gridDisk);
    SYM(gridDiskDistances);
    SYM(areNeighborCells);
    SYM(polygonToCells);
    SYM(polygonToCellsExperimental);
    SYM(maxPolygonToCellsSizeExperimental);
}

static void run(void) {
    vf_rng r;
    vf_rng_stream(&r, 17);
    load_ref();
    int64_t idx = 0;
    /* witnesses of repaired defects stay in the workload (known_findings.json F1a, F1b) */
    if (VF.shard == 0) {
        neigh_case(0x820817fffffffffULL, 0x82098ffffffffffULL);
        witness_f1b();
    }
    int nc = VF_T(60, 600);
    for (int i = 0; i < nc; i++) compaction_cases(&r, vf_u64(&r));
    for (int kind = 0; kind < 6; kind++)
        for (int i = 0; i < (kind == 0 || kind == 3 ? 1 : VF_T(2, 12)); i++) {
            uint64_t sd = vf_u64(&r);
            if (VF_MINE(kind * 16 + i)) compaction_big(kind, sd);
        }
    /* disks and neighbour pairs around every pentagon at several resolutions */
    for (int res = 0; res <= 15; res++)
        for (int p = 0; p < 12; p++) {
            if (!VF_MINE(idx++)) continue;
            if (!VF.thorough && (res + p) % 3) continue;
            H3Index pent = vf_make_cell(res, REF_PENT_BC[p], (int[15]){0});
            H3Index d2[19] = {0};
            if (gridDisk(pent, 2, d2)) continue;
            vfa_reset();
            for (int i = 0; i < 19; i++) {
                if (!d2[i]) continue;
                disk_cases(d2[i], 1 + (int)vf_below(&r, 4));
                for (int j = 0; j < 19; j++)
                    if (d2[j] && (VF.thorough || ((i + j) % 3 == 0))) neigh_case(d2[i], d2[j]);
            }
        }
    int nd = VF_T(40, 400);
    for (int i = 0; i < nd; i++) {
        H3Index h = vf_rand_cell(&r, (int)vf_below(&r, 16));
        disk_cases(h, (int)vf_below(&r, 6));
        H3Index nb[MAX_CELL_BNDRY_VERTS];
        int m = vf_geo_neighbors(h, nb);
        vfa_reset();
        if (m > 0) neigh_case(h, nb[vf_below(&r, (uint64_t)m)]);
        neigh_case(h, vf_rand_cell(&r, VF_RES(h)));
    }
    /* error-path inputs (statement: "every block ... is freed ... on every error path"): malformed origins and pairs reach the
     * fallback allocation of the disk family and fail inside it; degenerate k */
    int nh = VF_T(400, 6000);
    for (int i = 0; i < nh; i++) hostile_cases(vf_u64(&r));
    int np = VF_T(120, 1500);
    for (int i = 0; i < np; i++) poly_cases(vf_u64(&r));
    int nb = VF_T(60, 800);
    for (int i = 0; i < nb; i++) bad_poly_cases(vf_u64(&r));
    vf_add("calls", n_calls);
    vf_add("faulted_runs", n_faulted);
    vf_add("calls.no_allocation", n_trivial);
}
static void replay(const char *spec) {
    uint64_t a, b;
    int k;
    vf_rng r;
    vf_rng_seed(&r, 1);
    load_ref();
    int kd;
    if (sscanf(spec, "compactbig %d %" SCNx64, &kd, &a) == 2)
        compaction_big(kd, a);
    else if (sscanf(spec, "compact %" SCNx64, &a) == 1)
        compaction_cases(&r, a);
    else if (sscanf(spec, "disk %" SCNx64 " %d", &a, &k) == 2 || sscanf(spec, "diskdist %" SCNx64 " %d", &a, &k) == 2)
        disk_cases(a, k);
    else if (sscanf(spec, "neigh %" SCNx64 " %" SCNx64, &a, &b) == 2)
        neigh_case(a, b);
    else if (sscanf(spec, "poly %" SCNx64, &a) == 1)
        poly_cases(a);
    else if (sscanf(spec, "hostile %" SCNx64, &a) == 1)
        hostile_cases(a);
    else if (sscanf(spec, "badpoly %" SCNx64, &a) == 1)
        bad_poly_cases(a);
    else if (!strncmp(spec, "witness-f1b", 11))
        witness_f1b();
    else
        vf_fatal("bad replay spec: %s", spec);
    vf_add("calls", n_calls);
    vf_add("faulted_runs", n_faulted);
}
int main(int argc, char **argv) { return vf_main(argc, argv, "C17", run, replay); }
