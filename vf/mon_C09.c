/* mon_C09 — gridDistance is the true graph distance; local IJ is a
 * consistent partial chart (DESIGN.md §5 C09).
 * Oracle: BFS depth on geometric adjacency. */
#include "vf.h"

#include <fenv.h>

/* API calls of judge_pair run under g_round (the caller's floating-point rounding mode is part of the environment; the
 * unfolding uses lround() on doubles); the oracle always runs under FE_TONEAREST */
static int g_round = FE_TONEAREST;

static vf_map dist;
static int64_t n_pairs, n_succ, n_fail, n_sym, n_geo_bound;

static void judge_pair(H3Index a, H3Index b, int64_t bfs /* -1 unknown */, uint64_t okey) {
    int64_t d = -7, d2 = -7;
    if (g_round != FE_TONEAREST) fesetround(g_round);
    H3Error e = gridDistance(a, b, &d);
    if (g_round != FE_TONEAREST) fesetround(FE_TONEAREST);
    n_pairs++;
    if (e > 15) vf_violation("bad-code", "gridDistance", okey ^ vf_mix(b), "", "rc=%u", e);
    if (!e && bfs < 0) {
        /* no BFS for this pair: necessary conditions from geometry alone.  d = 0 only for a = b; d <= 2 only if b is in the
         * geometric 2-ball of a; and d steps cannot bridge more than d times the largest centre-to-centre step, bounded here
         * very generously by 4 cell widths of the larger of the two cells. */
        vf_cell ca, cb;
        char spec[96];
        snprintf(spec, sizeof spec, "pair %016" PRIx64 " %016" PRIx64 " -1", a, b);
        if ((d == 0) != (a == b))
            vf_violation_spec(spec, "distance", "gridDistance", okey ^ vf_mix(b) ^ 21, "", "gridDistance(%016" PRIx64 ", %016" PRIx64 ")=%" PRId64 " for %s cells", a, b, d, a == b ? "identical" : "different");
        else if (!vf_cell_load(a, &ca) && !vf_cell_load(b, &cb)) {
            ld gc = acosl(fminl(1.0L, fmaxl(-1.0L, v3_dot(ca.c, cb.c)))), w = ca.width > cb.width ? ca.width : cb.width;
            if (a != b && d >= 0 && (ld)d * 4 * w + 1e-12L < gc)
                vf_violation_spec(spec, "distance", "gridDistance", okey ^ vf_mix(b) ^ 22, "", "gridDistance(%016" PRIx64 ", %016" PRIx64 ")=%" PRId64 " but the centres are %.3Lg rad apart, more than %" PRId64 " steps of 4 cell widths (%.3Lg rad) can bridge", a, b, d, gc, d, w);
            n_geo_bound++;
        }
    }
    if (!e) {
        n_succ++;
        if (bfs >= 0 && d != bfs) {
            char spec[96];
            snprintf(spec, sizeof spec, "pair %016" PRIx64 " %016" PRIx64 " %" PRId64, a, b, bfs);
            vf_violation_spec(spec, "distance", "gridDistance", okey ^ vf_mix(b), "", "gridDistance(%016" PRIx64 ", %016" PRIx64 ")=%" PRId64 " but the minimum number of neighbour steps is %" PRId64, a, b, d, bfs);
        }
        if (g_round != FE_TONEAREST) fesetround(g_round);
        H3Error e2 = gridDistance(b, a, &d2);
        if (g_round != FE_TONEAREST) fesetround(FE_TONEAREST);
        if (!e2) {
            n_sym++;
            if (d2 != d) {
                char spec[96];
                snprintf(spec, sizeof spec, "pair %016" PRIx64 " %016" PRIx64 " %" PRId64, a, b, bfs);
                vf_violation_spec(spec, "asymmetric", "gridDistance", okey ^ vf_mix(b) ^ 5, "", "gridDistance(a,b)=%" PRId64 " but gridDistance(b,a)=%" PRId64 " for %016" PRIx64 ", %016" PRIx64, d, d2, a, b);
            }
        }
    } else {
        n_fail++;
        if (bfs == 0 || bfs == 1) {
            char spec[96];
            snprintf(spec, sizeof spec, "pair %016" PRIx64 " %016" PRIx64 " %" PRId64, a, b, bfs);
            vf_violation_spec(spec, "must-succeed", "gridDistance", okey ^ vf_mix(b) ^ 9, "", "gridDistance(%016" PRIx64 ", %016" PRIx64 ") rc=%u although the cells are %s", a, b, e, bfs ? "neighbours" : "identical");
        }
    }
}

/* all ordered pairs of a whole resolution (or: all targets within maxd of each origin) */
static void whole_res(int res, int maxd, int origin_stride) {
    vf_resgraph g;
    vf_case("graph %d", res);
    if (vf_resgraph_build(&g, res)) {
        vf_violation("error", "latLngToCell", (uint64_t)res, "", "cannot build the geometric adjacency graph of res %d", res);
        return;
    }
    int16_t *d = malloc((size_t)g.n * 2);
    int32_t *q = malloc((size_t)g.n * 4);
    int32_t taken = 0;
    for (int32_t i = 0; i < g.n; i++) {
        if (origin_stride > 0) {
            if (i % origin_stride) continue;
        } else {
            /* sampled origins: every (-stride)-th cell of the globe, and a 12x denser sample on the twelve pentagon base
             * cells (the unfolding across a pentagon depends on the origin's position inside that base cell) */
            int onpent = ref_is_pent_bc((int)((g.cells[i] >> 45) & 127));
            if (i % -origin_stride && !(onpent && i % (-origin_stride / 12 | 1) == 0)) continue;
        }
        if (!VF_MINE(taken++)) continue;
        vf_resgraph_bfs(&g, i, d, q);
        vf_case("origin %016" PRIx64 " %d", g.cells[i], maxd);
        if (!VF_GUARD()) {
            vf_assert_report("gridDistance", g.cells[i]);
            VF_UNGUARD();
            continue;
        }
        for (int32_t j = 0; j < g.n; j++)
            if (maxd < 0 || d[j] <= maxd) judge_pair(g.cells[i], g.cells[j], d[j], vf_mix(g.cells[i]));
        VF_UNGUARD();
        vf_distinct(g.cells[i]);
        vf_add("origins.whole_res", 1);
    }
    free(d);
    free(q);
    free(g.cells);
    free(g.adj);
    vf_map_free(&g.index);
}

static int unit_step(int di, int dj) {
    return (di == 1 && dj == 0) || (di == -1 && dj == 0) || (di == 0 && dj == 1) || (di == 0 && dj == -1) || (di == 1 && dj == 1) || (di == -1 && dj == -1);
}

/* origin-centred: distances and IJ chart over the BFS ball of radius R */
static void case_origin(H3Index o, int R, int do_ij) {
    vf_case("ball %016" PRIx64 " %d %d", o, R, do_ij);
    uint64_t key = vf_mix(o ^ 0xBA11) ^ vf_mix((uint64_t)R);
    H3Index *order = NULL;
    int64_t n = vf_geo_bfs(o, R + 1, &dist, &order);
    if (n == -2) {
        vf_add("undecided.polar_adjacency", 1);
        return;
    }
    if (n < 0) return;
    int pent_near = 0;
    for (int64_t i = 0; i < n; i++)
        if (ref_is_pentagon(order[i])) pent_near = 1;
    if (!VF_GUARD()) {
        vf_assert_report("gridDistance", key);
        VF_UNGUARD();
        free(order);
        return;
    }
    vf_map ijmap; /* cell -> packed ij for cells whose cellToLocalIj succeeded */
    vf_map_init(&ijmap, (size_t)n);
    for (int64_t i = 0; i < n; i++) {
        int64_t bd = *vf_map_get(&dist, order[i]);
        if (bd > R) continue;
        judge_pair(o, order[i], bd, key);
        if (!do_ij) continue;
        CoordIJ ij = {0x7fffffff, 0x7fffffff};
        if (g_round != FE_TONEAREST) fesetround(g_round);
        H3Error e = cellToLocalIj(o, order[i], 0, &ij);
        if (g_round != FE_TONEAREST) fesetround(FE_TONEAREST);
        vf_add("ij.to_calls", 1);
        if (e) {
            vf_add("ij.to_failed", 1);
            continue;
        }
        vf_map_put(&ijmap, order[i], (int64_t)(((uint64_t)(uint32_t)ij.i << 32) | (uint32_t)ij.j), NULL);
        H3Index back = 0;
        if (g_round != FE_TONEAREST) fesetround(g_round);
        e = localIjToCell(o, &ij, 0, &back);
        if (g_round != FE_TONEAREST) fesetround(FE_TONEAREST);
        if (!e) {
            vf_add("ij.roundtrips", 1);
            vf_out_cell("localIjToCell", back, VF_RES(o));
            if (back != order[i])
                vf_violation("ij-inverse", "localIjToCell", key ^ vf_mix(order[i]), "", "origin %016" PRIx64 ": cell %016" PRIx64 " -> (%d,%d) -> %016" PRIx64, o, order[i], ij.i, ij.j, back);
        } else
            vf_add("ij.from_failed", 1);
    }
    if (do_ij) {
        /* unit steps between neighbours, only in pentagon-free neighbourhoods */
        if (!pent_near) {
            for (int64_t i = 0; i < n; i++) {
                int64_t *pa = vf_map_get(&ijmap, order[i]);
                if (!pa) continue;
                H3Index nb[MAX_CELL_BNDRY_VERTS];
                int m = vf_geo_neighbors_cached(order[i], nb);
                for (int k = 0; k < m; k++) {
                    int64_t *pb = vf_map_get(&ijmap, nb[k]);
                    if (!pb) continue;
                    int di = (int32_t)((uint64_t)*pb >> 32) - (int32_t)((uint64_t)*pa >> 32), dj = (int32_t)((uint64_t)*pb & 0xffffffff) - (int32_t)((uint64_t)*pa & 0xffffffff);
                    vf_add("ij.neighbour_steps", 1);
                    if (!unit_step(di, dj))
                        vf_violation("ij-step", "cellToLocalIj", key ^ vf_mix(order[i]) ^ vf_mix(nb[k]), "", "origin %016" PRIx64 " (no pentagon within %d steps): neighbours %016" PRIx64 ", %016" PRIx64 " differ by (%d,%d) in IJ", o, R + 1, order[i], nb[k], di, dj);
                }
            }
            vf_add("ij.pentagon_free_origins", 1);
        }
        /* the reverse direction: grid of IJ coordinates around the origin's own IJ */
        int64_t *po = vf_map_get(&ijmap, o);
        if (po) {
            int oi = (int32_t)((uint64_t)*po >> 32), oj = (int32_t)((uint64_t)*po & 0xffffffff);
            for (int di = -R; di <= R; di++)
                for (int dj = -R; dj <= R; dj++) {
                    CoordIJ q = {oi + di, oj + dj}, c2;
                    H3Index b = 0;
                    vf_add("ij.from_calls", 1);
                    if (localIjToCell(o, &q, 0, &b)) continue;
                    vf_out_cell("localIjToCell", b, VF_RES(o));
                    if (!cellToLocalIj(o, b, 0, &c2)) {
                        vf_add("ij.roundtrips_rev", 1);
                        if (c2.i != q.i || c2.j != q.j)
                            vf_violation("ij-inverse", "cellToLocalIj", key ^ vf_mix((uint64_t)(di * 1000 + dj)), "", "origin %016" PRIx64 ": (%d,%d) -> %016" PRIx64 " -> (%d,%d)", o, q.i, q.j, b, c2.i, c2.j);
                    }
                }
        }
    }
    vf_map_free(&ijmap);
    VF_UNGUARD();
    vf_add("origins.ball", 1);
    if (pent_near) vf_add("origins.ball_with_pentagon", 1);
    vf_distinct(key);
    vf_sample("origin %016" PRIx64 ": %" PRId64 " cells within %d steps (%s), gridDistance == BFS depth wherever it succeeds", o, n, R, pent_near ? "pentagon inside" : "no pentagon");
    free(order);
}

/* IJ coordinates up to and beyond the int32 guards; mismatched resolutions */
static void case_extremes(H3Index o, vf_rng *r) {
    uint64_t key = vf_mix(o ^ 0xE09);
    static const int ex[] = {2147483647, -2147483647 - 1, 2147483646, -2147483647, 1073741824, -1073741824, 715827882, 715827883, 306783378, 1000000000, 65536, -65536, 46341, 100000};
    for (int t = 0; t < 12; t++) {
        CoordIJ q;
        q.i = vf_below(r, 2) ? ex[vf_below(r, sizeof ex / sizeof ex[0])] : (int)(uint32_t)vf_u64(r);
        q.j = vf_below(r, 2) ? ex[vf_below(r, sizeof ex / sizeof ex[0])] : (int)vf_below(r, 100) - 50;
        if (vf_below(r, 2)) {
            int t2 = q.i;
            q.i = q.j;
            q.j = t2;
        }
        vf_case("ijx %016" PRIx64 " %d %d", o, q.i, q.j);
        if (!VF_GUARD()) {
            vf_assert_report("localIjToCell", key);
            VF_UNGUARD();
            return;
        }
        H3Index b = 0;
        H3Error e = localIjToCell(o, &q, 0, &b);
        vf_add("ij.extreme_calls", 1);
        if (e > 15) vf_violation("bad-code", "localIjToCell", key, "", "rc=%u", e);
        if (!e) vf_out_cell("localIjToCell", b, VF_RES(o));
        else vf_add("ij.extreme_rejected", 1);
        VF_UNGUARD();
    }
    /* resolutions differ -> E_RES_MISMATCH */
    int res = VF_RES(o), r2 = (res + 1 + (int)vf_below(r, 15)) % 16;
    H3Index other = vf_rand_cell(r, r2);
    int64_t d;
    vf_case("mismatch %016" PRIx64 " %016" PRIx64, o, other);
    H3Error e = gridDistance(o, other, &d);
    vf_add("mismatch.calls", 1);
    if (e != E_RES_MISMATCH) vf_violation("wrong-code", "gridDistance", key ^ vf_mix(other), "", "gridDistance(res %d, res %d) rc=%u expected E_RES_MISMATCH(12)", res, r2, e);
}

static void run(void) {
    vf_rng r;
    vf_rng_stream(&r, 9);
    vf_map_init(&dist, 4096);
    int64_t idx = 0;
    /* every ordered pair on the globe at coarse resolutions */
    whole_res(0, -1, 1);
    whole_res(1, -1, 1);
    whole_res(2, -1, 1);
    if (VF.thorough) whole_res(3, 25, 1);
    else whole_res(3, 12, 4);
    /* every target on the globe from sampled origins at res 4 (thorough: denser, and res 5): distances on the scale of a
     * base cell, where an unfolding across a pentagon can succeed with a value that is not the shortest way round */
    whole_res(4, -1, VF_T(-1800, -60));
    if (VF.thorough) whole_res(5, -1, -4200);
    /* pentagon neighbourhoods at every resolution */
    H3Index seeds[600];
    int64_t szR;
    int RO = VF_T(2, 4), RB = VF_T(10, 20);
    maxGridDiskSize(RO, &szR);
    H3Index *d = vf_buf_new((size_t)szR * 8, 0);
    for (int res = 0; res <= 15; res++) {
        int n = vf_special_seeds(res, VF_T(2, 6), seeds, 600);
        for (int i = 0; i < n; i++) {
            if (!VF_MINE(idx++)) continue;
            if (i < 12 && res >= 1) {
                memset(d, 0, (size_t)szR * 8);
                if (gridDisk(seeds[i], RO, d)) continue;
                for (int64_t j = 0; j < szR; j++)
                    if (d[j]) case_origin(d[j], res >= 3 ? RB : (res == 2 ? 8 : 3), 1);
            } else
                case_origin(seeds[i], res >= 3 ? VF_T(6, 10) : 3, 1);
        }
        int nr = VF_T(25, 300);
        for (int i = 0; i < nr; i++) {
            H3Index h = vf_rand_cell(&r, res);
            case_origin(h, res >= 3 ? VF_T(5, 9) : 2, 1);
            case_extremes(h, &r);
        }
        /* random far pairs at fine resolutions (distance <= 200): BFS too large, judged for symmetry and
         * triangle consistency through an intermediate cell found by the path oracle of C14; here: symmetry only */
        if (res >= 5) {
            int np = VF_T(100, 2000);
            for (int i = 0; i < np; i++) {
                H3Index a = vf_rand_cell(&r, res);
                CoordIJ ij;
                H3Index b;
                if (cellToLocalIj(a, a, 0, &ij)) continue;
                ij.i += (int)vf_below(&r, 201) - 100;
                ij.j += (int)vf_below(&r, 201) - 100;
                if (localIjToCell(a, &ij, 0, &b)) continue;
                vf_case("pair %016" PRIx64 " %016" PRIx64 " -1", a, b);
                judge_pair(a, b, -1, vf_mix(a));
                vf_add("pairs.far_symmetry_only", 1);
            }
        }
    }
    /* digit-structured far pairs at fine resolutions: b is a with one coarse digit replaced, or with another base cell, or
     * both plus another last digit — two cells that agree in a long run of fine digits and are far apart.  A comparison of
     * indexes that looks at part of the bits only takes them for the same cell, for siblings or for neighbours. */
    for (int res = 6; res <= 15; res++) {
        int np = VF_T(150, 2500);
        for (int i = 0; i < np; i++) {
            H3Index a = vf_rand_cell(&r, res), b = a;
            int how = (int)vf_below(&r, 4);
            if (how != 1) {
                int pos = 1 + (int)vf_below(&r, 3);
                b = vf_set_digit(b, pos, (VF_DIGIT(b, pos) + 1 + (int)vf_below(&r, 5)) % 7);
            }
            if (how == 1 || how == 2) b = (b & ~((uint64_t)0x7f << 45)) | ((uint64_t)vf_below(&r, 122) << 45);
            if (how == 3) b = vf_set_digit(b, res, (int)vf_below(&r, 7));
            if (!ref_is_valid_cell(b) || b == a) continue;
            vf_case("pair %016" PRIx64 " %016" PRIx64 " -1", a, b);
            judge_pair(a, b, -1, vf_mix(a));
            vf_add("pairs.structured_far", 1);
        }
    }
    vf_buf_free(d);
    /* the same judgements with the API calls made under the three directed rounding modes */
    {
        static const int modes[3] = {FE_UPWARD, FE_DOWNWARD, FE_TOWARDZERO};
        int64_t before = n_pairs;
        for (int m = 0; m < 3; m++) {
            g_round = modes[m];
            for (int res = 0; res <= 15; res++) {
                int n = vf_special_seeds(res, 1, seeds, 600);
                for (int i = 0; i < n && i < 14; i++)
                    if (VF_MINE(idx++)) case_origin(seeds[i], res <= 1 ? 2 : VF_T(4, 7), 1);
                for (int i = 0; i < VF_T(2, 12); i++) case_origin(vf_rand_cell(&r, res), res <= 1 ? 2 : VF_T(3, 5), 1);
            }
        }
        g_round = FE_TONEAREST;
        vf_add("pairs.under_directed_rounding", n_pairs - before);
    }
    vf_add("pairs", n_pairs);
    vf_add("pairs.success", n_succ);
    vf_add("pairs.failed", n_fail);
    vf_add("pairs.both_directions", n_sym);
    vf_add("pairs.geometric_lower_bound_judged", n_geo_bound);
}
static void replay(const char *spec) {
    uint64_t a, b;
    int64_t bfs;
    int R, k, i, j;
    vf_rng r;
    vf_rng_seed(&r, 1);
    vf_map_init(&dist, 4096);
    if (sscanf(spec, "pair %" SCNx64 " %" SCNx64 " %" SCNd64, &a, &b, &bfs) == 3) {
        /* recompute the BFS depth when it was known */
        if (bfs >= 0) {
            H3Index *order = NULL;
            if (vf_geo_bfs(a, (int)bfs + 2, &dist, &order) > 0) {
                int64_t *dd = vf_map_get(&dist, b);
                bfs = dd ? *dd : -1;
            }
            free(order);
        }
        judge_pair(a, b, bfs, vf_mix(a));
    } else if (sscanf(spec, "ball %" SCNx64 " %d %d", &a, &R, &k) == 3)
        case_origin(a, R, k);
    else if (sscanf(spec, "origin %" SCNx64 " %d", &a, &R) == 2)
        case_origin(a, R < 0 || R > 30 ? 30 : R, 0);
    else if (sscanf(spec, "ijx %" SCNx64 " %d %d", &a, &i, &j) == 3 || sscanf(spec, "mismatch %" SCNx64, &a) == 1)
        for (int t = 0; t < 100; t++) case_extremes(a, &r);
    else
        vf_fatal("bad replay spec: %s", spec);
    vf_add("pairs", n_pairs);
}
int main(int argc, char **argv) { return vf_main(argc, argv, "C09", run, replay); }
