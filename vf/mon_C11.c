/* mon_C11 — vertex indexes are canonical: one index per corner, shared by its
 * three cells (DESIGN.md §5 C11).
 * Oracle: purely geometric.  Topological corners of a cell are the boundary
 * vertices that coincide (1e-12 rad) with boundary vertices of two other
 * cells; distortion vertices coincide with one.  The three cells around a
 * corner must all produce one identical index, whose decoded cell is one of
 * the three and whose coordinates are the corner. */
#include "vf.h"

static vf_map dist;
static int64_t n_cells, n_corners, n_cand, owned[16], cellcnt[16];

static int near(V3 a, V3 b) {
    V3 d = v3_sub(a, b);
    return v3_dot(d, d) < 1e-24L;
}
static int in_set(const H3Index *s, int n, H3Index x) {
    for (int i = 0; i < n; i++)
        if (s[i] == x) return 1;
    return 0;
}

typedef struct {
    int nc;                       /* number of topological corners */
    int vidx[6];                  /* boundary vertex index of corner i */
    H3Index other[6][2];          /* the two other cells at corner i */
} corners_t;

/* returns 0 ok, -2 undecided, -1 inconsistent geometry (reported by C08) */
static int find_corners(const vf_cell *A, corners_t *c) {
    H3Index nb[MAX_CELL_BNDRY_VERTS];
    int m = vf_geo_neighbors_c(A, VF_PUSH_FRAC, nb);
    if (m < 0) return m == -2 ? -2 : -1;
    vf_cell B[MAX_CELL_BNDRY_VERTS];
    for (int k = 0; k < m; k++)
        if (vf_cell_load(nb[k], &B[k])) return -1;
    c->nc = 0;
    for (int s = 0; s < A->n; s++) {
        int cnt = 0;
        H3Index who[3];
        for (int k = 0; k < m && cnt < 3; k++)
            for (int t = 0; t < B[k].n; t++)
                if (near(A->v[s], B[k].v[t])) {
                    who[cnt++] = nb[k];
                    break;
                }
        if (cnt == 2) {
            if (c->nc == 6) return -1;
            c->vidx[c->nc] = s;
            c->other[c->nc][0] = who[0];
            c->other[c->nc][1] = who[1];
            c->nc++;
        } else if (cnt != 1)
            return -1;
    }
    return 0;
}

static void case_cell(H3Index a, int whole) {
    vf_case("cell %016" PRIx64, a);
    uint64_t key = vf_mix(a ^ 0x11);
    if (!VF_GUARD()) {
        vf_assert_report("cellToVertexes", key);
        VF_UNGUARD();
        return;
    }
    vf_cell A;
    corners_t C;
    if (vf_cell_load(a, &A)) {
        VF_UNGUARD();
        return;
    }
    int rc = find_corners(&A, &C);
    if (rc == -2) {
        vf_add("undecided.polar_adjacency", 1);
        VF_UNGUARD();
        return;
    }
    int pent = ref_is_pentagon(a), want = pent ? 5 : 6;
    if (rc || C.nc != want) {
        vf_add("undecided.corner_geometry", 1); /* boundary inconsistency is C08's finding, not judged here */
        VF_UNGUARD();
        return;
    }
    n_cells++;
    H3Index *V = vf_buf_new(6 * 8, 0xEE);
    H3Error e = cellToVertexes(a, V);
    if (vf_buf_check(V)) vf_violation("overrun", "cellToVertexes", key, "", "canary damaged");
    if (e) {
        vf_violation("error", "cellToVertexes", key, "", "cellToVertexes(%016" PRIx64 ") rc=%u", a, e);
        goto out;
    }
    if (pent && V[5] != 0) vf_violation("null-slot", "cellToVertexes", key, "", "pentagon %016" PRIx64 ": slot 5 holds %016" PRIx64 " instead of H3_NULL", a, V[5]);
    for (int i = 0; i < want; i++) {
        uint64_t ck = key ^ vf_mix((uint64_t)i + 1);
        n_corners++;
        H3Index v = V[i], one = 0;
        for (int j = 0; j < i; j++)
            if (V[j] == v) vf_violation("duplicate", "cellToVertexes", ck, "", "cell %016" PRIx64 ": slots %d and %d both hold %016" PRIx64, a, j, i, v);
        if (!isValidVertex(v)) vf_violation("vertex-invalid", "isValidVertex", ck, "", "cellToVertexes(%016" PRIx64 ")[%d]=%016" PRIx64 " rejected by isValidVertex", a, i, v);
        if (VF_MODE(v) != 4 || (v >> 63)) vf_violation("vertex-form", "cellToVertexes", ck, "", "index %016" PRIx64 " is not mode 4", v);
        e = cellToVertex(a, i, &one);
        if (e || one != v) vf_violation("slot", "cellToVertex", ck, "", "cellToVertex(%016" PRIx64 ", %d) rc=%u -> %016" PRIx64 ", slot holds %016" PRIx64, a, i, e, one, v);
        LatLng g;
        e = vertexToLatLng(v, &g);
        if (e) vf_violation("error", "vertexToLatLng", ck, "", "vertexToLatLng(%016" PRIx64 ") rc=%u", v, e);
        else {
            ld d = v3_len(v3_sub(v3_from_ll(g), A.v[C.vidx[i]]));
            vf_maxd("vertex_coordinate_mismatch_rad", (double)d);
            if (d > 1e-12L)
                vf_violation("vertex-position", "vertexToLatLng", ck, "", "vertex %016" PRIx64 " (slot %d of %016" PRIx64 ") is %.3Lg rad from the cell's %d-th topological corner", v, i, a, d, i);
        }
        /* the two other cells around this corner produce the identical index */
        H3Index owner = vf_set_rsv(vf_set_mode(v, 1), 0);
        int vnum = VF_RSV(v);
        if (owner != a && owner != C.other[i][0] && owner != C.other[i][1])
            vf_violation("owner", "cellToVertexes", ck, "", "vertex %016" PRIx64 " names cell %016" PRIx64 " which is not one of the three cells at that corner (%016" PRIx64 ", %016" PRIx64 ", %016" PRIx64 ")", v, owner, a, C.other[i][0], C.other[i][1]);
        if (owner == a) {
            owned[A.res]++;
            if (vnum != i) vf_violation("owner", "cellToVertexes", ck, "", "vertex %016" PRIx64 " owned by %016" PRIx64 " carries number %d in slot %d", v, a, vnum, i);
        }
        H3Index lowest = a < C.other[i][0] ? a : C.other[i][0];
        if (C.other[i][1] < lowest) lowest = C.other[i][1];
        if (owner == lowest) vf_add("observed.owner_is_lowest_index", 1);
        else vf_add("observed.owner_not_lowest_index", 1);
        for (int q = 0; q < 2; q++) {
            H3Index X = C.other[i][q], VX[6] = {0};
            if (cellToVertexes(X, VX)) {
                vf_violation("error", "cellToVertexes", ck, "", "cellToVertexes(%016" PRIx64 ") failed", X);
                continue;
            }
            int j = -1;
            for (int t = 0; t < 6; t++)
                if (VX[t] == v) j = t;
            if (j < 0) {
                vf_violation("not-shared", "cellToVertexes", ck, "", "corner %d of %016" PRIx64 " is also a corner of %016" PRIx64 ", which does not list vertex %016" PRIx64, i, a, X, v);
                continue;
            }
            /* the same corner named through a non-owner cell must be rejected */
            if (X != owner) {
                H3Index alias = vf_set_rsv(vf_set_mode(X, 4), j);
                n_cand++;
                if (isValidVertex(alias))
                    vf_violation("alias-accepted", "isValidVertex", ck ^ vf_mix(X), "", "%016" PRIx64 " names the corner %016" PRIx64 " through the non-owner cell %016" PRIx64 " and is accepted", alias, v, X);
            }
        }
        if (a != owner) {
            H3Index alias = vf_set_rsv(vf_set_mode(a, 4), i);
            n_cand++;
            if (isValidVertex(alias)) vf_violation("alias-accepted", "isValidVertex", ck ^ 3, "", "%016" PRIx64 " (non-owner naming of %016" PRIx64 ") accepted", alias, v);
        }
    }
    /* vertex numbers outside the range */
    /* incl. values whose low 3, 8 or 16 bits are a legal vertex number */
    static const int badn[] = {6, 7, -1, 8, 100, -2147483647 - 1, 2147483647, 5, 9, 13, 16, 256, 258, 261, 515, 65536, 65539, -251, -65533, (1 << 30) + 2, 0x7fffff00 + 4};
    for (unsigned t = 0; t < sizeof badn / sizeof badn[0]; t++) {
        if (badn[t] == 5 && !pent) continue;
        H3Index one = 0;
        e = cellToVertex(a, badn[t], &one);
        vf_add("range.calls", 1);
        if (e != E_DOMAIN) vf_violation("wrong-code", "cellToVertex", key ^ vf_mix((uint64_t)(uint32_t)badn[t]), "", "cellToVertex(%s %016" PRIx64 ", %d) rc=%u expected E_DOMAIN(2)", pent ? "pentagon" : "hexagon", a, badn[t], e);
        if (badn[t] >= 0 && badn[t] < 8) {
            H3Index c = vf_set_rsv(vf_set_mode(a, 4), badn[t]);
            n_cand++;
            if (isValidVertex(c)) vf_violation("alias-accepted", "isValidVertex", key ^ 77 ^ (uint64_t)badn[t], "", "vertex number %d on %s %016" PRIx64 " accepted", badn[t], pent ? "pentagon" : "hexagon", a);
        }
    }
    /* neighbours <=> exactly two shared vertex indexes (over the 2-ball) */
    H3Index *order = NULL;
    int64_t nball = vf_geo_bfs(a, 2, &dist, &order);
    if (nball > 0) {
        for (int64_t i = 0; i < nball; i++) {
            if (order[i] == a) continue;
            H3Index VX[6] = {0};
            if (cellToVertexes(order[i], VX)) continue;
            int sh = 0;
            for (int t = 0; t < 6; t++)
                if (VX[t] && in_set(V, want, VX[t])) sh++;
            int isn = *vf_map_get(&dist, order[i]) == 1;
            vf_add("shared.pairs", 1);
            if ((sh == 2) != isn)
                vf_violation("shared-count", "cellToVertexes", key ^ vf_mix(order[i]), "", "%016" PRIx64 " and %016" PRIx64 " (graph distance %" PRId64 ") share %d vertex indexes", a, order[i], *vf_map_get(&dist, order[i]), sh);
        }
    }
    free(order);
    if (whole) cellcnt[A.res]++;
    vf_distinct(key);
    vf_sample("cell %016" PRIx64 ": %d corners, each index identical from its three cells, coordinates on the corner, aliases rejected", a, want);
out:
    VF_UNGUARD();
    vf_buf_free(V);
}

/* hostile 64-bit candidates: anything accepted must be produced by its own cell at that slot */
static void case_candidate(uint64_t c) {
    int got = isValidVertex(c);
    n_cand++;
    H3Index owner = vf_set_rsv(vf_set_mode(c, 1), 0);
    int vnum = VF_RSV(c), want = 0;
    if (!(c >> 63) && VF_MODE(c) == 4 && ref_is_valid_cell(owner) && vnum < (ref_is_pentagon(owner) ? 5 : 6)) {
        H3Index V[6] = {0};
        if (!cellToVertexes(owner, V)) want = V[vnum] == c; /* canonical form as established by case_cell */
    }
    if ((got != 0) != want) {
        char spec[64];
        snprintf(spec, sizeof spec, "cand %016" PRIx64, c);
        vf_violation_spec(spec, "vertex-predicate", "isValidVertex", c, "", "isValidVertex(%016" PRIx64 ")=%d but the canonical index of that corner is%s this value", c, got, want ? "" : " not");
    }
    if (want) vf_add("candidates.valid", 1);
}

static void on_cell(uint64_t h, int64_t idx, void *u) {
    (void)idx;
    (void)u;
    case_cell(h, 1);
}
static void run(void) {
    vf_rng r;
    vf_rng_stream(&r, 11);
    vf_map_init(&dist, 1024);
    int full = VF_T(4, 5);
    for (int res = 0; res <= full; res++) ref_enum_res(res, 1, on_cell, NULL);
    for (int res = 0; res <= full; res++) {
        char nm[48];
        snprintf(nm, sizeof nm, "owned.res%02d", res);
        vf_add(nm, owned[res]);
        snprintf(nm, sizeof nm, "wholecells.res%02d", res);
        vf_add(nm, cellcnt[res]);
    }
    H3Index seeds[600];
    int64_t idx = 0, sz;
    maxGridDiskSize(3, &sz);
    H3Index *d = vf_buf_new((size_t)sz * 8, 0);
    for (int res = full + 1; res <= 15; res++) {
        int n = vf_special_seeds(res, VF_T(6, 20), seeds, 600);
        for (int i = 0; i < n; i++) {
            if (!VF_MINE(idx++)) continue;
            memset(d, 0, (size_t)sz * 8);
            if (gridDisk(seeds[i], i < 12 ? 3 : 1, d)) continue;
            for (int64_t j = 0; j < sz; j++)
                if (d[j]) {
                    case_cell(d[j], 0);
                    vf_add("special.cells", 1);
                }
        }
        int nr = VF_T(150, 3000);
        for (int i = 0; i < nr; i++) case_cell(vf_rand_cell(&r, res), 0);
    }
    vf_buf_free(d);
    int nc = VF_T(300000, 6000000);
    for (int i = 0; i < nc; i++) {
        uint64_t h = vf_hostile_index(&r);
        int mode = vf_below(&r, 8) ? 4 : (int)vf_below(&r, 16);
        vf_case("cand %016" PRIx64, h);
        for (int rv = 0; rv < 8; rv++) case_candidate(vf_set_rsv(vf_set_mode(h, mode), rv));
        case_candidate(h);
    }
    vf_add("cells", n_cells);
    vf_add("corners", n_corners);
    vf_add("candidates", n_cand);
}
static void replay(const char *spec) {
    uint64_t h;
    vf_map_init(&dist, 1024);
    if (sscanf(spec, "cell %" SCNx64, &h) == 1)
        case_cell(h, 0);
    else if (sscanf(spec, "cand %" SCNx64, &h) == 1) {
        for (int rv = 0; rv < 8; rv++) case_candidate(vf_set_rsv(h, rv));
        case_candidate(h);
    } else
        vf_fatal("bad replay spec: %s", spec);
    vf_add("cells", n_cells);
    vf_add("candidates", n_cand);
}
int main(int argc, char **argv) { return vf_main(argc, argv, "C11", run, replay); }
