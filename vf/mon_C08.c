/* mon_C08 — cell boundaries tile the sphere; areas (DESIGN.md §5 C08).
 *
 * Oracle: purely geometric.  Neighbours come from geometric adjacency
 * (latLngToCell of points pushed across each boundary segment), every boundary
 * segment must be matched, reversed and within 1e-12 rad, by exactly one
 * segment of exactly one such neighbour; areas by Van Oosterom–Strackee in
 * long double; per-resolution sums are emitted as fixed-point partial sums and
 * closed by the driver (props.py post_C08).
 */
#include "vf.h"

#define EARTH_R_KM 6371.007180918475L /* documented authalic radius */
#define NC 8192
static vf_cell *cc;
static const vf_cell *get_cell(H3Index h) {
    vf_cell *c = &cc[vf_mix(h) & (NC - 1)];
    if (c->h == h) return c;
    c->h = 0;
    if (vf_cell_load(h, c)) {
        c->h = 0;
        return NULL;
    }
    return c;
}
static ld chord2(V3 a, V3 b) {
    V3 d = v3_sub(a, b);
    return v3_dot(d, d);
}
static ld sum_lib[16], sum_ref[16];
static int64_t cnt_res[16];
static int64_t n_cells, n_segs, n_tiled;

static void check_area(const vf_cell *c, uint64_t key, int whole) {
    double a = -1, km = -1, m2 = -1;
    H3Error e = cellAreaRads2(c->h, &a);
    ld ref = vf_cell_area(c);
    if (e || !(a > 0)) {
        vf_violation("area", "cellAreaRads2", key, "", "cellAreaRads2(%016" PRIx64 ") rc=%u value %g", c->h, e, a);
        return;
    }
    ld rel = fabsl(((ld)a - ref) / ref);
    /* within 0.12 degrees of a pole coordinates lose resolution (C02's statement); the
     * library's half-perimeter formula then differs more from the determinant formula */
    int polar = fabs(c->cg.lat) > M_PI_2 - 0.0021;
    vf_maxd(polar ? "area_rel_diff.polar" : "area_rel_diff", (double)rel);
    if (rel > 1e-10L) vf_add("area_rel_diff_gt_1e-10", 1);
    /* double-precision angle differences (haversine across lng = +-pi in particular) give each
     * edge length an absolute error of a few 1e-16 rad, i.e. a relative area error ~ 1e-15/width */
    ld tolr = 2e-14L / c->width;
    if (tolr < 1e-8L) tolr = 1e-8L;
    vf_maxd("area_rel_diff_over_tolerance", (double)(rel / (polar ? 1e-6L : tolr)));
    if (rel > (polar ? 1e-6L : tolr)) vf_violation("area", "cellAreaRads2", key, "", "cellAreaRads2(%016" PRIx64 ")=%.17g, spherical area enclosed by the boundary=%.17Lg (rel %.3Lg)", c->h, a, ref, rel);
    if (cellAreaKm2(c->h, &km) || cellAreaM2(c->h, &m2)) {
        vf_violation("area", "cellAreaKm2", key, "", "Km2/M2 failed");
        return;
    }
    ld wk = (ld)a * EARTH_R_KM * EARTH_R_KM, wm = wk * 1e6L;
    if (fabsl((km - wk) / wk) > 2e-15L) vf_violation("area-unit", "cellAreaKm2", key, "", "Km2=%.17g expected rads2*R^2=%.17Lg", km, wk);
    if (fabsl((m2 - wm) / wm) > 2e-15L) vf_violation("area-unit", "cellAreaM2", key, "", "M2=%.17g expected %.17Lg", m2, wm);
    if (whole) {
        sum_lib[c->res] += a;
        sum_ref[c->res] += ref;
        cnt_res[c->res]++;
    }
}

static void check_cell(H3Index h, int whole, int tiling) {
    uint64_t key = h;
    vf_case("cell %016" PRIx64, h);
    if (!VF_GUARD()) {
        vf_assert_report("cellToBoundary", key);
        VF_UNGUARD();
        return;
    }
    vf_cell A;
    int e = vf_cell_load(h, &A);
    n_cells++;
    if (e) {
        vf_violation("error", "cellToBoundary", key, "", "cellToBoundary/cellToLatLng(%016" PRIx64 ") failed (%d)", h, e);
        VF_UNGUARD();
        return;
    }
    int pent = ref_is_pentagon(h), odd = A.res & 1;
    int okn = pent ? (A.n == 5 || (odd && A.n == 10)) : (A.n == 6 || (odd && (A.n == 7 || A.n == 8)));
    if (!okn) vf_violation("vertex-count", "cellToBoundary", key, "", "%s %016" PRIx64 " at res %d has %d boundary vertices", pent ? "pentagon" : "hexagon", h, A.res, A.n);
    char nm[40];
    snprintf(nm, sizeof nm, "numverts.%02d", A.n);
    vf_add(nm, 1);
    if (A.n != (pent ? 5 : 6)) vf_distinct(key);
    ld area = vf_cell_area(&A);
    if (!(area > 0)) vf_violation("orientation", "cellToBoundary", key, "", "boundary of %016" PRIx64 " is not counter-clockwise (signed area %.3Lg)", h, area);
    ld od = vf_cell_outside(&A, A.c);
    if (!(od < 0)) vf_violation("centre", "cellToLatLng", key, "", "centre of %016" PRIx64 " is not strictly inside its boundary (signed distance %.3Lg)", h, od);
    else vf_maxd("centre_inside_margin_rel_min_neg", (double)(od / A.width)); /* closest to 0 = tightest */
    check_area(&A, key, whole);
    if (!tiling) {
        VF_UNGUARD();
        return;
    }
    /* ---- tiling */
    H3Index nb[MAX_CELL_BNDRY_VERTS];
    int m = vf_geo_neighbors_c(&A, VF_PUSH_FRAC, nb);
    if (m == -2) { /* polar cell below coordinate resolution: adjacency oracle undecided */
        vf_add("undecided.polar_adjacency", 1);
        VF_UNGUARD();
        return;
    }
    if (m < 0) {
        vf_violation("error", "latLngToCell", key, "", "geometric neighbours of %016" PRIx64 " unavailable", h);
        VF_UNGUARD();
        return;
    }
    const vf_cell *B[MAX_CELL_BNDRY_VERTS];
    vf_cell Bs[MAX_CELL_BNDRY_VERTS];
    for (int k = 0; k < m; k++) {
        const vf_cell *b = get_cell(nb[k]);
        if (!b) {
            vf_violation("error", "cellToBoundary", key, "", "neighbour %016" PRIx64 " has no boundary", nb[k]);
            VF_UNGUARD();
            return;
        }
        Bs[k] = *b; /* copy: the cache is direct-mapped */
        B[k] = &Bs[k];
    }
    int owner[MAX_CELL_BNDRY_VERTS];
    const ld TOL2 = 1e-24L;
    for (int s = 0; s < A.n; s++) {
        V3 p = A.v[s], q = A.v[(s + 1) % A.n];
        int match = 0;
        ld best = 1e9L;
        owner[s] = -1;
        for (int k = 0; k < m; k++)
            for (int t = 0; t < B[k]->n; t++) {
                ld d1 = chord2(p, B[k]->v[(t + 1) % B[k]->n]), d2 = chord2(q, B[k]->v[t]);
                ld d = d1 > d2 ? d1 : d2;
                if (d < best) best = d;
                if (d < TOL2) {
                    match++;
                    owner[s] = k;
                }
            }
        n_segs++;
        if (match == 1) {
            n_tiled++;
            vf_maxd("shared_vertex_mismatch_rad", (double)sqrtl(best));
        } else
            vf_violation(match ? "overlap" : "gap", "cellToBoundary", key, "",
                         "segment %d/%d of %016" PRIx64 " is matched (reversed, 1e-12 rad) by %d neighbour segments; best mismatch %.3Lg rad", s, A.n, h, match,
                         sqrtl(best));
    }
    /* each neighbour shares one connected stretch of 1-2 segments */
    for (int k = 0; k < m; k++) {
        int cnt = 0, runs = 0;
        for (int s = 0; s < A.n; s++)
            if (owner[s] == k) {
                cnt++;
                if (owner[(s + A.n - 1) % A.n] != k) runs++;
            }
        if (cnt == A.n) runs = 1;
        if (cnt && (cnt > 2 || runs != 1))
            vf_violation("stretch", "cellToBoundary", key, "", "neighbour %016" PRIx64 " shares %d segments in %d runs with %016" PRIx64, nb[k], cnt, runs, h);
        if (!cnt) vf_violation("stretch", "cellToBoundary", key, "", "geometric neighbour %016" PRIx64 " shares no boundary segment with %016" PRIx64, nb[k], h);
    }
    VF_UNGUARD();
    vf_sample("cell %016" PRIx64 ": %d vertices, %d neighbours, every segment matched reversed by exactly one neighbour segment", h, A.n, m);
}
static void on_full(uint64_t h, int64_t idx, void *u) {
    (void)idx;
    (void)u;
    check_cell(h, 1, 1);
}
static void on_area(uint64_t h, int64_t idx, void *u) {
    (void)idx;
    (void)u;
    check_cell(h, 1, 0);
}

static void run(void) {
    cc = calloc(NC, sizeof *cc);
    int full = VF_T(5, 6), area_only = VF_T(5, 7);
    for (int res = 0; res <= area_only; res++) ref_enum_res(res, 1, res <= full ? on_full : on_area, NULL);
    for (int res = 0; res <= area_only; res++) {
        char nm[64];
        snprintf(nm, sizeof nm, "areasum_lib_q60.res%02d", res);
        vf_add(nm, (int64_t)llroundl(sum_lib[res] * 0x1p60L));
        snprintf(nm, sizeof nm, "areasum_ref_q60.res%02d", res);
        vf_add(nm, (int64_t)llroundl(sum_ref[res] * 0x1p60L));
        snprintf(nm, sizeof nm, "areacount.res%02d", res);
        vf_add(nm, cnt_res[res]);
    }
    /* fine resolutions: pentagons, their neighbourhoods, face-edge cells, poles, antimeridian */
    H3Index seeds[600];
    int64_t idx = 0, sz;
    maxGridDiskSize(3, &sz);
    H3Index *d = vf_buf_new((size_t)sz * 8, 0);
    vf_rng r;
    vf_rng_stream(&r, 8);
    for (int res = full + 1; res <= 15; res++) {
        int n = vf_special_seeds(res, VF_T(8, 30), seeds, 600);
        for (int i = 0; i < n; i++) {
            if (!VF_MINE(idx++)) continue;
            int k = i < 12 ? 3 : 1;
            memset(d, 0, (size_t)sz * 8);
            if (gridDisk(seeds[i], k, d)) continue;
            for (int64_t j = 0; j < sz; j++)
                if (d[j]) {
                    check_cell(d[j], 0, 1);
                    vf_add("special.cells", 1);
                }
        }
        int nr = VF_T(300, 6000);
        for (int i = 0; i < nr; i++) check_cell(vf_rand_cell(&r, res), 0, 1);
        /* the far tips of the base cells' footprints: (d1, d, d, ..., d) — one digit repeated to the finest resolution runs straight
         * out from the base cell's centre; these cells have the largest face coordinates a base cell produces (a range check in the
         * index-to-face conversion that is a hair too tight rejects only them) */
        for (int bc = 0; bc < 122; bc++)
            for (int d1 = 0; d1 <= 6; d1++)
                for (int dd = 1; dd <= 6; dd++) {
                    if (!VF_MINE(idx++) || (!VF.thorough && ((bc + d1 + dd + res) & 3))) continue;
                    int dg[15];
                    for (int i = 0; i < res; i++) dg[i] = dd;
                    dg[0] = d1;
                    H3Index h = vf_make_cell(res, bc, dg);
                    if (!ref_is_valid_cell(h)) continue;
                    check_cell(h, 0, 1);
                    vf_add("footprint_tip.cells", 1);
                }
        /* a dense walk along the 30 icosahedron edges (see mon_C10.c) */
        int nper = res >= 14 ? VF_T(40, 400) : res >= 12 ? VF_T(12, 120) : VF_T(4, 40), cap = 90 * nper;
        H3Index *ew = malloc((size_t)cap * 8);
        int ne = vf_edge_walk_cells(res, nper, &r, ew, cap);
        for (int i = 0; i < ne; i++)
            if (VF_MINE(idx++)) {
                check_cell(ew[i], 0, 1);
                vf_add("edgewalk.cells", 1);
            }
        free(ew);
    }
    vf_buf_free(d);
    vf_add("cells", n_cells);
    vf_add("segments", n_segs);
    vf_add("segments.matched_once", n_tiled);
}
static void replay(const char *spec) {
    uint64_t h;
    cc = calloc(NC, sizeof *cc);
    if (sscanf(spec, "cell %" SCNx64, &h) == 1) {
        check_cell(h, 0, 1);
        vf_add("cells", n_cells);
    } else
        vf_fatal("bad replay spec: %s", spec);
}
int main(int argc, char **argv) { return vf_main(argc, argv, "C08", run, replay); }
