/* mon_C10 — directed edges encode exactly the neighbour pairs and their shared
 * boundary (DESIGN.md §5 C10).
 * Oracles: geometric adjacency ("is a neighbour"), ref_is_valid_edge from the
 * documented layout, the geometrically shared boundary stretch (segment
 * matching as in C08) and long-double great-circle length. */
#include "vf.h"

#define EARTH_R_KM 6371.007180918475L
static vf_map dist;
static int64_t n_cells, n_edges, n_non, n_cand;

static int cmp_u64(const void *a, const void *b) {
    uint64_t x = *(const uint64_t *)a, y = *(const uint64_t *)b;
    return x < y ? -1 : x > y;
}
static ld chord(V3 a, V3 b) { return v3_len(v3_sub(a, b)); }

static void check_boundary(H3Index e, const vf_cell *A, const vf_cell *B, uint64_t key) {
    int idx[4];
    int np = vf_shared_stretch(A, B, idx);
    CellBoundary cb;
    memset(&cb, 0, sizeof cb);
    H3Error er = directedEdgeToBoundary(e, &cb);
    if (er) {
        vf_violation("error", "directedEdgeToBoundary", key, "", "rc=%u on valid edge %016" PRIx64, er, e);
        return;
    }
    if (np < 2) {
        /* the two cellToBoundary outputs do not share a stretch within 1e-12 (the tiling clause of C08): the clause "the opposite
         * edge yields the same points in reverse order" does not need the stretch and is still judged */
        vf_add("undecided.no_shared_stretch", 1);
        H3Index rev0 = 0;
        CellBoundary rb0;
        if (!cellsToDirectedEdge(B->h, A->h, &rev0) && !directedEdgeToBoundary(rev0, &rb0)) {
            if (rb0.numVerts != cb.numVerts)
                vf_violation("edge-reverse", "directedEdgeToBoundary", key, "", "edge %016" PRIx64 " has %d points, the opposite edge %016" PRIx64 " has %d", e, cb.numVerts, rev0, rb0.numVerts);
            else
                for (int i = 0; i < cb.numVerts; i++) {
                    ld d = chord(v3_from_ll(cb.verts[i]), v3_from_ll(rb0.verts[cb.numVerts - 1 - i]));
                    vf_maxd("edge_reverse_mismatch_rad", (double)d);
                    if (d > 1e-12L) {
                        vf_violation("edge-reverse", "directedEdgeToBoundary", key, "", "edge %016" PRIx64 " point %d differs from the opposite edge's point %d by %.3Lg rad", e, i, cb.numVerts - 1 - i, d);
                        break;
                    }
                }
        }
        return;
    }
    if (cb.numVerts != np) {
        vf_violation("edge-boundary", "directedEdgeToBoundary", key, "", "edge %016" PRIx64 ": %d points, the cells share a stretch of %d points", e, cb.numVerts, np);
        return;
    }
    if (np == 3) vf_add("edges.three_point", 1);
    ld len = 0;
    V3 prev = v3(0, 0, 0);
    for (int i = 0; i < np; i++) {
        V3 p = v3_from_ll(cb.verts[i]);
        ld d = chord(p, A->v[idx[i]]);
        vf_maxd("edge_boundary_mismatch_rad", (double)d);
        if (d > 1e-12L) {
            vf_violation("edge-boundary", "directedEdgeToBoundary", key, "", "edge %016" PRIx64 " point %d is %.3Lg rad from the shared boundary vertex of origin and destination", e, i, d);
            return;
        }
        if (i) len += v3_angle(prev, p);
        prev = p;
    }
    /* the opposite edge: same points reversed */
    H3Index rev = 0;
    CellBoundary rb;
    if (!cellsToDirectedEdge(B->h, A->h, &rev) && !directedEdgeToBoundary(rev, &rb)) {
        if (rb.numVerts != np)
            vf_violation("edge-reverse", "directedEdgeToBoundary", key, "", "edge %016" PRIx64 " has %d points, the opposite edge %016" PRIx64 " has %d", e, np, rev, rb.numVerts);
        else
            for (int i = 0; i < np; i++) {
                ld d = chord(v3_from_ll(cb.verts[i]), v3_from_ll(rb.verts[np - 1 - i]));
                vf_maxd("edge_reverse_mismatch_rad", (double)d);
                if (d > 1e-12L) {
                    vf_violation("edge-reverse", "directedEdgeToBoundary", key, "", "edge %016" PRIx64 " point %d differs from the opposite edge's point %d by %.3Lg rad", e, i, np - 1 - i, d);
                    break;
                }
            }
    } else
        vf_violation("error", "cellsToDirectedEdge", key, "", "opposite edge of %016" PRIx64 " unavailable", e);
    /* lengths */
    double lr = -1, lk = -1, lm = -1;
    if (edgeLengthRads(e, &lr) || edgeLengthKm(e, &lk) || edgeLengthM(e, &lm)) {
        vf_violation("error", "edgeLengthRads", key, "", "edge length failed on valid edge %016" PRIx64, e);
        return;
    }
    ld rel = fabsl((lr - len) / len);
    vf_maxd("edge_length_rel_diff", (double)rel);
    /* haversine on double angles: absolute error of a few 1e-16 rad per arc */
    ld tol = 1e-9L;
    if (4e-15L / len > tol) tol = 4e-15L / len;
    if (rel > tol) vf_violation("edge-length", "edgeLengthRads", key, "", "edge %016" PRIx64 ": edgeLengthRads=%.17g, great-circle length of its boundary=%.17Lg", e, lr, len);
    if (fabsl((lk - (ld)lr * EARTH_R_KM) / ((ld)lr * EARTH_R_KM)) > 2e-15L) vf_violation("edge-unit", "edgeLengthKm", key, "", "Km=%.17g vs rads*R=%.17Lg", lk, (ld)lr * EARTH_R_KM);
    if (fabsl((lm - (ld)lr * EARTH_R_KM * 1000) / ((ld)lr * EARTH_R_KM * 1000)) > 2e-15L) vf_violation("edge-unit", "edgeLengthM", key, "", "M=%.17g vs rads*R*1000=%.17Lg", lm, (ld)lr * EARTH_R_KM * 1000);
}

static void case_cell(H3Index a, int with_boundary) {
    vf_case("cell %016" PRIx64 " %d", a, with_boundary);
    uint64_t key = vf_mix(a ^ 0x10);
    H3Index *order = NULL;
    int64_t nball = vf_geo_bfs(a, 2, &dist, &order);
    if (nball == -2) {
        vf_add("undecided.polar_adjacency", 1);
        return;
    }
    if (nball < 0) return;
    if (!VF_GUARD()) {
        vf_assert_report("cellsToDirectedEdge", key);
        VF_UNGUARD();
        free(order);
        return;
    }
    vf_cell A, B;
    if (vf_cell_load(a, &A)) {
        VF_UNGUARD();
        free(order);
        return;
    }
    n_cells++;
    H3Index want[6];
    int nw = 0;
    for (int64_t i = 0; i < nball; i++) {
        H3Index b = order[i];
        int64_t d = *vf_map_get(&dist, b);
        H3Index e = 0;
        H3Error er = cellsToDirectedEdge(a, b, &e);
        if (d == 1) {
            n_edges++;
            uint64_t ek = key ^ vf_mix(b);
            if (er) {
                vf_violation("error", "cellsToDirectedEdge", ek, "", "cellsToDirectedEdge(%016" PRIx64 ", %016" PRIx64 ") rc=%u for neighbouring cells", a, b, er);
                continue;
            }
            if (nw < 6) want[nw++] = e;
            if (!isValidDirectedEdge(e) || !ref_is_valid_edge(e))
                vf_violation("edge-invalid", "cellsToDirectedEdge", ek, "", "edge %016" PRIx64 " of (%016" PRIx64 ", %016" PRIx64 "): isValidDirectedEdge=%d, documented form=%d", e, a, b, isValidDirectedEdge(e), ref_is_valid_edge(e));
            H3Index o = 0, dd = 0, od[2] = {0, 0};
            H3Error e1 = getDirectedEdgeOrigin(e, &o), e2 = getDirectedEdgeDestination(e, &dd), e3 = directedEdgeToCells(e, od);
            if (e1 || e2 || e3 || o != a || dd != b || od[0] != a || od[1] != b)
                vf_violation("edge-decode", "directedEdgeToCells", ek, "", "edge %016" PRIx64 " decodes to (%016" PRIx64 ", %016" PRIx64 ") / (%016" PRIx64 ", %016" PRIx64 "), rc %u %u %u; built from (%016" PRIx64 ", %016" PRIx64 ")", e, o, dd, od[0], od[1], e1, e2, e3, a, b);
            else {
                vf_out_cell("getDirectedEdgeOrigin", o, A.res);
                vf_out_cell("getDirectedEdgeDestination", dd, A.res);
            }
            if (with_boundary && !vf_cell_load(b, &B)) check_boundary(e, &A, &B, ek);
        } else if (d == 2 || d == 0) {
            n_non++;
            if (er != E_NOT_NEIGHBORS)
                vf_violation("non-neighbour", "cellsToDirectedEdge", key ^ vf_mix(b) ^ 7, "", "cellsToDirectedEdge(%016" PRIx64 ", %016" PRIx64 ") rc=%u (edge %016" PRIx64 ") for cells at graph distance %" PRId64 ", expected E_NOT_NEIGHBORS(11)", a, b, er, e, d);
        }
    }
    /* non-adjacent siblings */
    if (A.res > 0) {
        ref_child_iter it;
        for (ref_child_iter_init(&it, ref_parent(a, A.res - 1), A.res); !it.done; ref_child_iter_next(&it)) {
            int64_t *d = vf_map_get(&dist, it.h);
            if (d && *d == 1) continue;
            H3Index e = 0;
            H3Error er = cellsToDirectedEdge(a, it.h, &e);
            n_non++;
            if (er != E_NOT_NEIGHBORS)
                vf_violation("non-neighbour", "cellsToDirectedEdge", key ^ vf_mix(it.h) ^ 9, "", "siblings (%016" PRIx64 ", %016" PRIx64 ") not adjacent: rc=%u expected E_NOT_NEIGHBORS", a, it.h, er);
        }
    }
    /* cells of another resolution are never neighbours (the neighbour relation of the statement lives within one resolution):
     * the origin's parent, centre child, a neighbour's parent and centre child, its base cell, a far cell and structured far
     * cells of the same resolution (same digits on another base cell, same tail under other leading digits) */
    {
        H3Index others[12];
        int no = 0;
        if (A.res > 0) others[no++] = ref_parent(a, A.res - 1);
        if (A.res > 0) others[no++] = ref_parent(a, 0);
        if (A.res < 15) others[no++] = vf_set_res(vf_set_digit(a, A.res + 1, 0), A.res + 1);
        if (A.res < 15) others[no++] = vf_set_res(vf_set_digit(a, A.res + 1, 3), A.res + 1);
        H3Index nbv[MAX_CELL_BNDRY_VERTS];
        int m = vf_geo_neighbors_cached(a, nbv);
        if (m > 0) {
            H3Index nb = nbv[(int)(vf_mix(a) % (uint64_t)m)];
            if (A.res > 0) others[no++] = ref_parent(nb, A.res - 1);
            if (A.res < 15) others[no++] = vf_set_res(vf_set_digit(nb, A.res + 1, 0), A.res + 1);
        }
        for (int i = 0; i < no; i++) {
            H3Index e = 0;
            H3Error er = cellsToDirectedEdge(a, others[i], &e);
            n_non++;
            vf_add("non_neighbour.other_resolution", 1);
            if (er != E_NOT_NEIGHBORS)
                vf_violation("non-neighbour", "cellsToDirectedEdge", key ^ vf_mix(others[i]) ^ 11, "", "cellsToDirectedEdge(%016" PRIx64 " (res %d), %016" PRIx64 " (res %d)) rc=%u, expected E_NOT_NEIGHBORS(11): cells of different resolutions are not neighbours", a, A.res,
                             others[i], VF_RES(others[i]), er);
        }
        /* same resolution, far away, digit-wise similar */
        H3Index far[3];
        int nf = 0;
        int bc = (int)((a >> 45) & 127), bc2 = (bc + 16 + (int)(vf_mix(a ^ 5) % 90)) % 122;
        far[nf++] = (a & ~((uint64_t)127 << 45)) | ((uint64_t)bc2 << 45);
        if (A.res >= 3) {
            H3Index t = a;
            for (int q = 1; q <= A.res - 2; q++) t = vf_set_digit(t, q, (int)(vf_mix(a + (uint64_t)q) % 7));
            far[nf++] = t;
        }
        for (int i = 0; i < nf; i++) {
            if (!ref_is_valid_cell(far[i]) || far[i] == a) continue;
            int64_t *dd = vf_map_get(&dist, far[i]);
            if (dd) continue; /* inside the explored 2-ball: judged above */
            LatLng ga, gb;
            if (cellToLatLng(a, &ga) || cellToLatLng(far[i], &gb)) continue;
            if (v3_angle(v3_from_ll(ga), v3_from_ll(gb)) < 4 * A.width) continue; /* not clearly far */
            H3Index e = 0;
            H3Error er = cellsToDirectedEdge(a, far[i], &e);
            n_non++;
            vf_add("non_neighbour.structured_far", 1);
            if (er != E_NOT_NEIGHBORS)
                vf_violation("non-neighbour", "cellsToDirectedEdge", key ^ vf_mix(far[i]) ^ 13, "", "cellsToDirectedEdge(%016" PRIx64 ", %016" PRIx64 ") rc=%u for cells many widths apart, expected E_NOT_NEIGHBORS(11)", a, far[i], er);
        }
    }
    /* originToDirectedEdges lists exactly these */
    H3Index *ed = vf_buf_new(6 * 8, 0xEE);
    H3Error er = originToDirectedEdges(a, ed);
    int pent = ref_is_pentagon(a), nulls = 0, ng = 0;
    H3Index got[6];
    for (int i = 0; i < 6; i++)
        if (ed[i] == 0) nulls++;
        else got[ng++] = ed[i];
    qsort(got, (size_t)ng, 8, cmp_u64);
    qsort(want, (size_t)nw, 8, cmp_u64);
    if (er || ng != nw || memcmp(got, want, (size_t)nw * 8) || nulls != (pent ? 1 : 0) || nw != (pent ? 5 : 6))
        vf_violation("edge-list", "originToDirectedEdges", key, "", "originToDirectedEdges(%016" PRIx64 ") rc=%u: %d edges + %d null slots; neighbours give %d edges%s", a, er, ng, nulls, nw,
                     (ng == nw && memcmp(got, want, (size_t)nw * 8)) ? " (different set)" : "");
    if (vf_buf_check(ed)) vf_violation("overrun", "originToDirectedEdges", key, "", "canary damaged");
    vf_buf_free(ed);
    VF_UNGUARD();
    vf_distinct(key);
    vf_sample("cell %016" PRIx64 ": %d directed edges valid, decode to their cells, boundaries = shared stretches, non-neighbours rejected", a, nw);
    free(order);
}

/* 64-bit candidates against the documented edge form */
static void case_candidate(uint64_t e) {
    int got = isValidDirectedEdge(e), want = ref_is_valid_edge(e);
    n_cand++;
    if ((got != 0) != want) {
        char spec[64];
        snprintf(spec, sizeof spec, "cand %016" PRIx64, e);
        vf_violation_spec(spec, "edge-predicate", "isValidDirectedEdge", e, "", "isValidDirectedEdge(%016" PRIx64 ")=%d, documented form (mode 2, direction 1-6, not 1 on a pentagon, valid origin) says %d", e, got, want);
    }
    if (want) vf_add("candidates.valid", 1);
}

static void on_cell(uint64_t h, int64_t idx, void *u) {
    (void)idx;
    (void)u;
    case_cell(h, 1);
}
static void run(void) {
    vf_rng r;
    vf_rng_stream(&r, 10);
    vf_map_init(&dist, 1024);
    for (int res = 0; res <= VF_T(4, 5); res++) ref_enum_res(res, 1, on_cell, NULL);
    H3Index seeds[600];
    int64_t idx = 0, sz;
    maxGridDiskSize(3, &sz);
    H3Index *d = vf_buf_new((size_t)sz * 8, 0);
    for (int res = VF_T(5, 6); res <= 15; res++) {
        int n = vf_special_seeds(res, VF_T(6, 20), seeds, 600);
        for (int i = 0; i < n; i++) {
            if (!VF_MINE(idx++)) continue;
            memset(d, 0, (size_t)sz * 8);
            if (gridDisk(seeds[i], i < 12 ? 3 : 1, d)) continue;
            for (int64_t j = 0; j < sz; j++)
                if (d[j]) {
                    case_cell(d[j], 1);
                    vf_add("special.cells", 1);
                }
        }
        int nr = VF_T(200, 3000);
        for (int i = 0; i < nr; i++) case_cell(vf_rand_cell(&r, res), 1);
        /* a dense walk along the 30 icosahedron edges (distortion vertices, 3-point edges): denser at the finest resolutions,
         * where the substrate coordinates are largest */
        int nper = res >= 14 ? VF_T(40, 400) : res >= 12 ? VF_T(12, 120) : VF_T(4, 40), cap = 90 * nper;
        H3Index *ew = malloc((size_t)cap * 8);
        int ne = vf_edge_walk_cells(res, nper, &r, ew, cap);
        for (int i = 0; i < ne; i++)
            if (VF_MINE(idx++)) {
                case_cell(ew[i], 1);
                vf_add("edgewalk.cells", 1);
            }
        free(ew);
    }
    vf_buf_free(d);
    /* candidate indexes: hostile cell generator re-moded to 2..5 x all 8 reserved values */
    int nc = VF_T(400000, 8000000);
    for (int i = 0; i < nc; i++) {
        uint64_t h = vf_hostile_index(&r);
        int mode = vf_below(&r, 8) ? 2 : (int)vf_below(&r, 16);
        for (int rv = 0; rv < 8; rv++) case_candidate(vf_set_rsv(vf_set_mode(h, mode), rv));
        case_candidate(h);
    }
    /* every pentagon x every direction */
    for (int res = 0; res <= 15; res++)
        for (int k = 0; k < 12; k++)
            for (int rv = 0; rv < 8; rv++) case_candidate(vf_set_rsv(vf_set_mode(vf_make_cell(res, REF_PENT_BC[k], (int[15]){0}), 2), rv));
    vf_add("cells", n_cells);
    vf_add("edges", n_edges);
    vf_add("non_neighbour_pairs", n_non);
    vf_add("candidates", n_cand);
}
static void replay(const char *spec) {
    uint64_t h;
    int wb;
    vf_map_init(&dist, 1024);
    if (sscanf(spec, "cell %" SCNx64 " %d", &h, &wb) == 2)
        case_cell(h, wb);
    else if (sscanf(spec, "cand %" SCNx64, &h) == 1)
        case_candidate(h);
    else
        vf_fatal("bad replay spec: %s", spec);
    vf_add("cells", n_cells);
    vf_add("candidates", n_cand);
}
int main(int argc, char **argv) { return vf_main(argc, argv, "C10", run, replay); }
