/* mon_C02 — latLngToCell returns the cell whose boundary contains the point
 * (DESIGN.md §5 C02).
 *
 * Oracle: gnomonic chart centred on cellToLatLng(out): boundary vertices
 * (incl. distortion vertices) form a planar, possibly non-convex polygon;
 * crossing-number containment; when outside, the true angular distance to the
 * nearest great-circle boundary segment is compared with the property's
 * tolerance max(2e-12, 4e-15/cos(lat)).
 */
#include "vf.h"

#define NCACHE 16
static vf_cell cache[NCACHE];
static int cache_next;
static const vf_cell *get_cell(H3Index h) {
    for (int i = 0; i < NCACHE; i++)
        if (cache[i].h == h) return &cache[i];
    vf_cell *c = &cache[cache_next];
    cache_next = (cache_next + 1) % NCACHE;
    c->h = 0;
    if (vf_cell_load(h, c)) {
        c->h = 0;
        return NULL;
    }
    return c;
}
static ld seg_angdist(V3 p, V3 a, V3 b) {
    V3 n = v3_cross(a, b);
    ld nl = v3_len(n);
    if (nl < 1e-30L) return v3_angle(p, a);
    n = v3_scale(n, 1 / nl);
    if (v3_dot(v3_cross(a, p), n) >= 0 && v3_dot(v3_cross(p, b), n) >= 0) return fabsl(asinl(v3_dot(p, n)));
    ld da = v3_angle(p, a), db = v3_angle(p, b);
    return da < db ? da : db;
}
static ld true_outside(const vf_cell *c, V3 p) {
    ld best = 1e9L;
    for (int i = 0; i < c->n; i++) {
        ld d = seg_angdist(p, c->v[i], c->v[(i + 1) % c->n]);
        if (d < best) best = d;
    }
    return best;
}

static int64_t n_pts, n_near, n_arb, n_rej;

static void case_point(double lat, double lng, int res, const char *stratum) {
    vf_case("pt %a %a %d", lat, lng, res);
    LatLng g = {lat, lng};
    uint64_t bl, bg;
    memcpy(&bl, &lat, 8);
    memcpy(&bg, &lng, 8);
    uint64_t key = vf_mix(bl) ^ vf_mix(bg + 0x1234567) ^ vf_mix((uint64_t)res + 31);
    H3Index h = 0x7777777777777777ULL;
    if (!VF_GUARD()) {
        vf_assert_report("latLngToCell", key);
        VF_UNGUARD();
        return;
    }
    H3Error e = latLngToCell(&g, res, &h);
    int finite = isfinite(lat) && isfinite(lng);
    if (res < 0 || res > 15 || !finite) {
        n_rej++;
        int ok = (res < 0 || res > 15) ? (e == E_RES_DOMAIN || (!finite && e == E_LATLNG_DOMAIN)) : e == E_LATLNG_DOMAIN;
        if (!ok) vf_violation("wrong-code", "latLngToCell", key, "", "lat=%g lng=%g res=%d: rc=%u", lat, lng, res, e);
        if (h != 0x7777777777777777ULL && h != 0) vf_violation("index-on-error", "latLngToCell", key, "", "rc=%u but output slot holds %016" PRIx64, e, h);
        vf_distinct(key);
        VF_UNGUARD();
        return;
    }
    if (e) {
        vf_violation("error", "latLngToCell", key, "", "finite point lat=%.17g lng=%.17g res=%d rejected with rc=%u", lat, lng, res, e);
        VF_UNGUARD();
        return;
    }
    vf_out_cell("latLngToCell", h, res);
    if (!ref_is_valid_cell(h) || VF_RES(h) != res) {
        VF_UNGUARD();
        return;
    }
    if (!(lat >= -M_PI_2 && lat <= M_PI_2 && lng >= -2 * M_PI && lng <= 2 * M_PI)) {
        n_arb++; /* arbitrary finite coordinates: success + validity only */
        VF_UNGUARD();
        return;
    }
    const vf_cell *c = get_cell(h);
    VF_UNGUARD();
    if (!c) {
        vf_violation("error", "cellToBoundary", key, "", "boundary/centre of returned cell %016" PRIx64 " unavailable", h);
        return;
    }
    V3 p = v3_from_ll(g);
    /* a point on the far side of the sphere has no gnomonic image: plain angular distance */
    ld od = v3_dot(p, c->c) < 0.5L ? v3_angle(p, c->c) : vf_cell_outside(c, p);
    n_pts++;
    if (fabsl(od) < 1e-3L * c->width) {
        n_near++;
        vf_distinct(key);
    }
    if (od > 0) {
        ld tol = 4e-15L / cosl((ld)lat);
        if (tol < 2e-12L) tol = 2e-12L;
        ld ang = od > tol / 2 ? true_outside(c, p) : od;
        char nm[48];
        snprintf(nm, sizeof nm, "outside_excess_rad.res%02d", res);
        if (fabs(lat) < 1.5) vf_maxd(nm, (double)ang);
        vf_maxd("outside_over_tolerance_ratio", (double)(ang / tol));
        if (ang > tol)
            vf_violation("outside", "latLngToCell", key, "", "[%s] point (%.17g, %.17g) res %d -> %016" PRIx64 " but lies %.3Lg rad outside its boundary (tolerance %.3Lg)",
                         stratum, lat, lng, res, h, ang, tol);
    }
    vf_sample("latLngToCell(%.17g, %.17g, %d) = %016" PRIx64 " signed distance to boundary %.3Lg rad", lat, lng, res, h, od);
}
static void case_v3(V3 p, int res, const char *stratum, vf_rng *r) {
    LatLng g = v3_to_ll(p);
    double lng = g.lng;
    if (r && vf_below(r, 8) == 0) { /* same meridian, other representation within [-2pi, 2pi] */
        lng = g.lng > 0 ? g.lng - 2 * M_PI : g.lng + 2 * M_PI;
        if (lng < -2 * M_PI || lng > 2 * M_PI) lng = g.lng;
    }
    case_point(g.lat, lng, res, stratum);
}

/* adversarial points around one cell */
static void around_cell(H3Index h, vf_rng *r) {
    vf_cell c;
    if (vf_cell_load(h, &c)) return;
    static const ld T[5] = {1e-9L, 0.25L, 0.5L, 0.75L, 1 - 1e-9L};
    for (int i = 0; i < c.n; i++) {
        V3 a = c.v[i], b = c.v[(i + 1) % c.n];
        for (int ti = 0; ti < 5; ti++) {
            V3 m = v3_norm(v3_add(v3_scale(a, 1 - T[ti]), v3_scale(b, T[ti])));
            V3 dir = v3_norm(v3_sub(m, c.c));
            for (int k = 1; k <= 12; k++)
                for (int s = -1; s <= 1; s += 2) {
                    ld f = s * powl(10, -k) * (1 + 0.5L * (ld)vf_unit(r));
                    case_v3(v3_norm(v3_add(m, v3_scale(dir, f * c.width))), c.res, "edge", r);
                }
        }
        /* around the vertex */
        V3 t1 = v3_norm(v3_cross(a, v3(0.3L, 0.5L, 0.8L)));
        V3 t2 = v3_cross(a, t1);
        for (int k = 3; k <= 12; k += 3)
            for (int q = 0; q < 6; q++) {
                ld ang = (q + (ld)vf_unit(r)) * VF_PI / 3, rad = powl(10, -k) * c.width;
                case_v3(v3_norm(v3_add(a, v3_add(v3_scale(t1, rad * cosl(ang)), v3_scale(t2, rad * sinl(ang))))), c.res, "vertex", r);
            }
    }
    case_v3(c.c, c.res, "centre", r);
    vf_add("cells.around", 1);
}

static void run(void) {
    vf_rng r;
    vf_rng_stream(&r, 2);
    vf_ico_init();
    int64_t idx = 0;
    H3Index seeds[600];
    for (int res = 0; res <= 15; res++) {
        /* special neighbourhoods: seed + its ring */
        int n = vf_special_seeds(res, VF_T(2, 8), seeds, 600);
        for (int i = 0; i < n; i++) {
            if (!VF_MINE(idx++)) continue;
            around_cell(seeds[i], &r);
            H3Index nb[MAX_CELL_BNDRY_VERTS];
            int m = vf_geo_neighbors(seeds[i], nb);
            for (int j = 0; j < m && j < VF_T(2, 10); j++) around_cell(nb[j], &r);
        }
        int nr = VF_T(40, 600);
        for (int i = 0; i < nr; i++) around_cell(vf_rand_cell(&r, res), &r);
        /* face-assignment slivers along the icosahedron edges (quarter points and midpoints, 1e-6..1e-3 rad off the edge) */
        {
            H3Index es[4000];
            int ne = vf_edge_offset_seeds(res, es, 4000);
            for (int i = 0; i < ne; i += VF_T(3, 1))
                if (VF_MINE(idx++)) {
                    LatLng g;
                    if (!cellToLatLng(es[i], &g)) case_point(g.lat, g.lng, res, "edge-sliver");
                    if ((i % 19) == 0) around_cell(es[i], &r);
                }
        }
        /* icosahedron vertices and edges themselves */
        for (int v = 0; v < 12; v++)
            if (VF_MINE(idx++)) {
                case_v3(VF_ICO_V[v], res, "ico-vertex", &r);
                for (int k = 1; k <= 15; k += 2) {
                    V3 d = v3_norm(v3_cross(VF_ICO_V[v], v3(0.1L + (ld)vf_unit(&r), 0.7L, 0.2L)));
                    case_v3(v3_norm(v3_add(VF_ICO_V[v], v3_scale(d, powl(10, -k)))), res, "ico-vertex", &r);
                }
            }
        for (int e = 0; e < 30; e++)
            if (VF_MINE(idx++)) {
                V3 a = VF_ICO_V[VF_ICO_E[e][0]], b = VF_ICO_V[VF_ICO_E[e][1]];
                V3 nrm = v3_norm(v3_cross(a, b));
                int np = VF_T(20, 200);
                for (int i = 0; i < np; i++) {
                    ld t = (ld)vf_unit(&r);
                    V3 m = v3_norm(v3_add(v3_scale(a, 1 - t), v3_scale(b, t)));
                    ld off = vf_below(&r, 3) ? powl(10, -1 - 14 * (ld)vf_unit(&r)) * (vf_below(&r, 2) ? 1 : -1) : 0;
                    case_v3(v3_norm(v3_add(m, v3_scale(nrm, off))), res, "ico-edge", &r);
                }
            }
        /* points that share a coordinate bit for bit with a structurally special point: due north / south (identical longitude)
         * and due east / west (identical latitude) of every res-0 cell centre — twenty of them are the icosahedron face centres,
         * twelve its vertices — at distances 1e-9 .. 0.3 rad.  Azimuths of exactly 0, pi and +-pi/2 from a face centre, and
         * a zero longitude difference, are values that sampled or perturbed points never produce. */
        {
            int zero[15] = {0};
            for (int bc = 0; bc < 122; bc++) {
                if (!VF_MINE(idx++)) continue;
                LatLng c;
                if (cellToLatLng(vf_make_cell(0, bc, zero), &c)) continue;
                for (int k = 0; k < VF_T(8, 24); k++) {
                    double dlt = pow(10.0, -9.0 + 8.5 * vf_unit(&r));
                    if (fabs(c.lat - dlt) < M_PI_2) case_point(c.lat - dlt, c.lng, res, "same-longitude");
                    if (fabs(c.lat + dlt) < M_PI_2) case_point(c.lat + dlt, c.lng, res, "same-longitude");
                    case_point(c.lat, c.lng + dlt, res, "same-latitude");
                    case_point(c.lat, c.lng - dlt, res, "same-latitude");
                }
            }
        }
        /* poles and antimeridian */
        if (VF_MINE(idx++)) {
            static const double L[] = {0, M_PI, -M_PI, 2 * M_PI, -2 * M_PI, 1.0, -2.5, M_PI_2, 4.0};
            for (unsigned j = 0; j < sizeof L / sizeof L[0]; j++) {
                case_point(M_PI_2, L[j], res, "pole");
                case_point(-M_PI_2, L[j], res, "pole");
                for (int k = 1; k <= 15; k++) {
                    case_point(M_PI_2 - pow(10, -k), L[j], res, "pole");
                    case_point(-M_PI_2 + pow(10, -k), L[j], res, "pole");
                }
            }
            for (int k = 1; k <= 15; k++)
                for (int q = 0; q < 12; q++) {
                    double lat = -1.5 + 3.0 * vf_unit(&r);
                    case_point(lat, M_PI - pow(10, -k), res, "antimeridian");
                    case_point(lat, -M_PI + pow(10, -k), res, "antimeridian");
                    case_point(lat, q & 1 ? M_PI : -M_PI, res, "antimeridian");
                    case_point(lat, 2 * M_PI - pow(10, -k), res, "antimeridian");
                    case_point(lat, pow(10, -k) * (q & 1 ? 1 : -1), res, "meridian0");
                }
        }
        /* uniform points */
        int nu = VF_T(3000, 100000);
        for (int i = 0; i < nu; i++) {
            LatLng g = vf_rand_ll(&r);
            case_point(g.lat, g.lng, res, "uniform");
        }
    }
    /* witnesses of repaired defects stay in the workload as ordinary cases (known_findings.json F6) */
    if (VF.shard == 0) {
        case_point(0x1.363c3018f82ccp-1, 0x1.7a1a54498d2b3p+1, 11, "witness-F6");
        case_point(0x1.363cee9e3b51cp-1, -0x1.aa25354f7083dp+1, 11, "witness-F6");
    }
    /* ... and the mechanism behind F6: points at 1e-3..1e-9 rad from each of the 20 face centres, res 9-15 */
    for (int f = 0; f < 20; f++)
        if (VF_MINE(idx++))
            for (int res = 9; res <= 15; res++)
                for (int k = 0; k < VF_T(60, 600); k++) {
                    V3 t1 = v3_norm(v3_cross(VF_ICO_F[f], v3(0.3L, 0.5L, 0.8L))), t2 = v3_cross(VF_ICO_F[f], t1);
                    ld ang = 2 * VF_PI * (ld)vf_unit(&r), rad = powl(10, -3 - 6 * (ld)vf_unit(&r));
                    case_v3(v3_norm(v3_add(VF_ICO_F[f], v3_add(v3_scale(t1, rad * cosl(ang)), v3_scale(t2, rad * sinl(ang))))), res, "face-centre", &r);
                }
    /* arbitrary finite doubles, rejected inputs */
    int na = VF_T(30000, 600000);
    for (int i = 0; i < na; i++) {
        double lat = vf_hostile_double(&r), lng = vf_hostile_double(&r);
        int res = vf_below(&r, 4) ? (int)vf_below(&r, 16) : vf_hostile_int(&r);
        case_point(lat, lng, res, "hostile");
    }
    vf_add("points.judged_containment", n_pts);
    vf_add("points.near_boundary", n_near);
    vf_add("points.arbitrary_finite", n_arb);
    vf_add("points.rejected", n_rej);
}
static void replay(const char *spec) {
    double lat, lng;
    int res;
    if (sscanf(spec, "pt %la %la %d", &lat, &lng, &res) == 3) {
        case_point(lat, lng, res, "replay");
        vf_add("points.judged_containment", n_pts);
    } else
        vf_fatal("bad replay spec: %s", spec);
}
int main(int argc, char **argv) { return vf_main(argc, argv, "C02", run, replay); }
