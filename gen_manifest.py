#!/usr/bin/env python3
"""Regenerate MANIFEST.json from vf/props.py (single source of truth for what is claimed)."""
import json, os, sys
HERE = os.path.dirname(os.path.abspath(__file__))
sys.path.insert(0, os.path.join(HERE, "vf"))
from props import PROPS, NOT_APPLICABLE, HOOK_COMMITS
ids = [json.loads(l)["id"] for l in open(os.path.join(HERE, "properties.jsonl"))]
checks = []
for pid in ids:
    if pid not in PROPS:
        continue
    P = PROPS[pid]
    checks.append({
        "property_id": pid,
        "quick_cmd": "./check %s --tier quick" % pid,
        "thorough_cmd": "./check %s --tier thorough" % pid,
        "evidence_file": "/verif/evidence/%s.json" % pid,
        "replay_cmd_template": "./check %s --replay {path}" % pid,
        "engine": "vf-monitors",
        "level_claimed": {"category": P["level"], "text": P["level_text"], "design_ref": P.get("design_ref", "DESIGN.md §5 " + pid)},
        "level_note": P["level_note"],
        "technique": P["technique"],
    })
na = [{"property_id": pid, "reason": NOT_APPLICABLE.get(pid, "monitor not built yet — work in progress, see DESIGN.md §5 for the planned runtime monitor")}
      for pid in ids if pid not in PROPS]
M = {
    "version": 1,
    "setup_cmd": "true",
    "hooks": {
        "guard": "H3_VERIF_HOOKS",
        "enable": "./check compiles src/h3lib/lib/*.c directly from /repo's working tree and passes -DH3_VERIF_HOOKS to every monitor build except the TSan and write-trap (shared object) ones; the hooks are observation-only table look-up points (src/h3lib/include/h3VerifHooks.h: H3_VERIF_HIT -> h3VerifHit(table,row,col), implemented by vf/vf_kit.c)",
        "baseline_off_cmd": "/verif/baseline_off.sh",
        "source_commits": HOOK_COMMITS,
        "add_only": True,
    },
    "engines": [{"name": "vf-monitors", "path": "/verif/check", "serves_properties": [c["property_id"] for c in checks],
                 "kind_free_text": "runtime monitoring: the real library rebuilt from the working tree under ASan+UBSan / TSan / valgrind / allocator ledger (gcc), plus a coverage-guided phase for C12 (clang + libFuzzer), driven by enumerated, structured and hostile workloads and judged by independent reference oracles at the API boundary"}],
    "checks": checks,
    "not_applicable": na,
    "notes": "Every check rebuilds the library from /repo's working tree (VERIF_REPO overrides) on every run; nothing needs setup. Known genuine defects are listed in /verif/known_findings.json.",
}
json.dump(M, open(os.path.join(HERE, "MANIFEST.json"), "w"), indent=1)
print("MANIFEST.json: %d checks, %d not_applicable" % (len(checks), len(na)))
