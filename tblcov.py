#!/usr/bin/env python3
"""print the table coverage recorded in evidence/<id>.json (from the H3_VERIF_HOOKS observation points)"""
import json, sys
for p in sys.argv[1:]:
    e = json.load(open('/verif/evidence/%s.json' % p))
    print(p, e['tier'], 'lookups', e['coverage']['counters'].get('tablehook.lookups'))
    for k, v in e['coverage'].get('table_coverage', {}).items():
        print('   %-75s %4d/%4d rows %3d/%3d  unhit %s' % (k, v['cells_hit'], v['cells'], v['rows_hit'], v['rows'], ' '.join(v['first_unhit'][:8])))
