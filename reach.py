#!/usr/bin/env python3
"""reach.py [Cnn ...] — line reach of the library under the quick workloads (gcov build of the same monitors).

For each property: VERIF_GCOV=1 ./check <id> --tier quick --keep, then gcov over the library objects; prints per-file line
coverage and writes reach/<id>.json (covered/total per file + uncovered line numbers) and reach/ALL.json (union).
A measurement aid (DESIGN.md §10), not a check: it never reports a verdict."""
import glob, gzip, json, os, shutil, subprocess, sys
HERE = os.path.dirname(os.path.abspath(__file__))
props = sys.argv[1:] or ["C%02d" % i for i in range(1, 21)]
os.makedirs(os.path.join(HERE, "reach"), exist_ok=True)
union = {}; bunion = {}
for p in props:
    pr = subprocess.Popen([os.path.join(HERE, "check"), p, "--tier", "quick", "--keep"], cwd=HERE, env=dict(os.environ, VERIF_GCOV="1"),
                          stdout=subprocess.PIPE, stderr=subprocess.STDOUT, text=True)
    txt = pr.communicate()[0]
    last = txt.strip().splitlines()[-1] if txt.strip() else ""
    bd = [os.path.join(HERE, ".build", "%s.quick.%d" % (p, pr.pid))]   # only this run's directory: other checks may be running
    res = {}; bres = {}
    for b in bd:
        for cdir in glob.glob(os.path.join(b, "gcov*")):
            gcdas = glob.glob(os.path.join(cdir, "lib_*.gcda"))
            if not gcdas:
                continue
            g = subprocess.run(["gcov", "-b", "--json-format", "--stdout"] + gcdas, cwd=cdir, stdout=subprocess.PIPE, stderr=subprocess.DEVNULL)
            for doc in g.stdout.decode(errors="replace").splitlines():
                try:
                    j = json.loads(doc)
                except ValueError:
                    continue
                for f in j.get("files", []):
                    name = os.path.basename(f["file"])
                    if not name.endswith(".c") or "/vf/" in f["file"]:
                        continue
                    cov = res.setdefault(name, {})
                    bcov = bres.setdefault(name, {})
                    for ln in f["lines"]:
                        cov[ln["line_number"]] = cov.get(ln["line_number"], 0) + ln["count"]
                        for bi, br in enumerate(ln.get("branches", [])):
                            if br.get("throw"):
                                continue
                            k = "%d.%d" % (ln["line_number"], bi)
                            bcov[k] = bcov.get(k, 0) + br["count"]
        shutil.rmtree(b, ignore_errors=True)
    out = {}
    for name, cov in sorted(res.items()):
        tot = len(cov); hit = sum(1 for v in cov.values() if v)
        bc = bres.get(name, {})
        out[name] = {"lines": tot, "covered": hit, "uncovered": sorted(k for k, v in cov.items() if not v),
                     "branches": len(bc), "branches_taken": sum(1 for v in bc.values() if v),
                     "branches_never": sorted((k for k, v in bc.items() if not v), key=lambda x: [int(t) for t in x.split(".")])}
        ub = bunion.setdefault(name, {})
        for k, v in bc.items():
            ub[k] = ub.get(k, 0) + v
        u = union.setdefault(name, {})
        for k, v in cov.items():
            u[k] = u.get(k, 0) + v
    json.dump({"property": p, "check_output": last, "files": out}, open(os.path.join(HERE, "reach", p + ".json"), "w"), indent=1)
    tl = sum(v["lines"] for v in out.values()); tc = sum(v["covered"] for v in out.values())
    print("%s: %d/%d library lines reached (%.1f%%)  [%s]" % (p, tc, tl, 100.0 * tc / max(tl, 1), last[:90]), flush=True)
allout = {}
for name, cov in sorted(union.items()):
    bc = bunion.get(name, {})
    allout[name] = {"lines": len(cov), "covered": sum(1 for v in cov.values() if v), "uncovered": sorted(k for k, v in cov.items() if not v),
                    "branches": len(bc), "branches_taken": sum(1 for v in bc.values() if v),
                    "branches_never": sorted((k for k, v in bc.items() if not v), key=lambda x: [int(t) for t in x.split(".")])}
    print("  %-18s lines %5d/%5d   branch outcomes %5d/%5d" % (name, allout[name]["covered"], allout[name]["lines"], allout[name]["branches_taken"], allout[name]["branches"]))
json.dump(allout, open(os.path.join(HERE, "reach", "ALL.json"), "w"), indent=1)
