#!/usr/bin/env python3
"""validate MANIFEST.json and evidence/*.json against the schemas (needs jsonschema: run with python3-vt)"""
import json, sys, glob, jsonschema
ok = True
try:
    jsonschema.validate(json.load(open('/verif/MANIFEST.json')), json.load(open('/root/.vp/MANIFEST.schema.json')))
    print("MANIFEST ok")
except Exception as e:
    ok = False; print("MANIFEST:", str(e)[:500])
S = json.load(open('/root/.vp/EVIDENCE.schema.json'))
for f in sorted(glob.glob('/verif/evidence/*.json')):
    try:
        jsonschema.validate(json.load(open(f)), S); print(f, "ok")
    except Exception as e:
        ok = False; print(f, str(e)[:300])
sys.exit(0 if ok else 1)
